//! Vec-backed executable specification of the subset of `bytes` used by poster.
use std::ops::{Deref, DerefMut};

#[derive(Clone, Debug, Default, PartialEq, Eq)]
pub struct Bytes { v: Vec<u8> }

impl Bytes {
    pub const fn new() -> Self { Bytes { v: Vec::new() } }
    pub fn from_static(s: &'static [u8]) -> Self { Bytes { v: s.to_vec() } }
    pub fn copy_from_slice(s: &[u8]) -> Self { Bytes { v: s.to_vec() } }
    pub fn len(&self) -> usize { self.v.len() }
    pub fn is_empty(&self) -> bool { self.v.is_empty() }
    pub fn split_to(&mut self, at: usize) -> Bytes {
        assert!(at <= self.v.len(), "split_to out of bounds");
        let tail = self.v.split_off(at);
        let head = std::mem::replace(&mut self.v, tail);
        Bytes { v: head }
    }
}
impl Deref for Bytes { type Target = [u8]; fn deref(&self) -> &[u8] { &self.v } }
impl AsRef<[u8]> for Bytes { fn as_ref(&self) -> &[u8] { &self.v } }
impl From<Vec<u8>> for Bytes { fn from(v: Vec<u8>) -> Self { Bytes { v } } }
impl From<&'static [u8]> for Bytes { fn from(v: &'static [u8]) -> Self { Bytes { v: v.to_vec() } } }
impl From<&'static str> for Bytes { fn from(v: &'static str) -> Self { Bytes { v: v.as_bytes().to_vec() } } }
impl PartialEq<[u8]> for Bytes { fn eq(&self, o: &[u8]) -> bool { self.v[..] == *o } }
impl PartialEq<Bytes> for [u8] { fn eq(&self, o: &Bytes) -> bool { *self == o.v[..] } }
impl PartialEq<Bytes> for &[u8] { fn eq(&self, o: &Bytes) -> bool { **self == o.v[..] } }
impl<'a, T: ?Sized> PartialEq<&'a T> for Bytes where Bytes: PartialEq<T> { fn eq(&self, o: &&'a T) -> bool { *self == **o } }
impl<const N: usize> PartialEq<[u8; N]> for Bytes { fn eq(&self, o: &[u8; N]) -> bool { self.v[..] == o[..] } }

pub trait Buf {
    fn remaining(&self) -> usize;
    fn chunk(&self) -> &[u8];
    fn advance(&mut self, cnt: usize);
    fn get_u16(&mut self) -> u16 {
        assert!(self.remaining() >= 2, "buffer underflow");
        let c = self.chunk(); let r = ((c[0] as u16) << 8) | c[1] as u16; self.advance(2); r
    }
    fn copy_to_bytes(&mut self, len: usize) -> Bytes {
        assert!(len <= self.remaining(), "`len` greater than remaining");
        let r = Bytes::copy_from_slice(&self.chunk()[..len]); self.advance(len); r
    }
}
impl Buf for Bytes {
    fn remaining(&self) -> usize { self.v.len() }
    fn chunk(&self) -> &[u8] { &self.v }
    fn advance(&mut self, cnt: usize) {
        assert!(cnt <= self.v.len(), "cannot advance past `remaining`");
        self.v.drain(..cnt);
    }
}
impl Buf for &[u8] {
    fn remaining(&self) -> usize { self.len() }
    fn chunk(&self) -> &[u8] { self }
    fn advance(&mut self, cnt: usize) { *self = &self[cnt..]; }
}

#[derive(Clone, Debug, Default, PartialEq, Eq)]
pub struct BytesMut { v: Vec<u8> }
impl BytesMut {
    pub fn new() -> Self { BytesMut { v: Vec::new() } }
    pub fn with_capacity(_c: usize) -> Self { BytesMut { v: Vec::new() } }
    pub fn len(&self) -> usize { self.v.len() }
    pub fn is_empty(&self) -> bool { self.v.is_empty() }
    pub fn reserve(&mut self, _n: usize) {}
    pub fn resize(&mut self, n: usize, val: u8) { self.v.resize(n, val) }
    pub fn freeze(self) -> Bytes { Bytes { v: self.v } }
    pub fn split(&mut self) -> BytesMut { BytesMut { v: std::mem::take(&mut self.v) } }
    pub fn split_to(&mut self, at: usize) -> BytesMut {
        assert!(at <= self.v.len(), "split_to out of bounds");
        let tail = self.v.split_off(at);
        let head = std::mem::replace(&mut self.v, tail);
        BytesMut { v: head }
    }
}
impl Deref for BytesMut { type Target = [u8]; fn deref(&self) -> &[u8] { &self.v } }
impl DerefMut for BytesMut { fn deref_mut(&mut self) -> &mut [u8] { &mut self.v } }
impl AsRef<[u8]> for BytesMut { fn as_ref(&self) -> &[u8] { &self.v } }

pub trait BufMut {
    fn put_slice(&mut self, s: &[u8]);
    fn put_u8(&mut self, n: u8) { self.put_slice(&[n]) }
    fn put_u16(&mut self, n: u16) { self.put_slice(&n.to_be_bytes()) }
    fn put_u32(&mut self, n: u32) { self.put_slice(&n.to_be_bytes()) }
    fn put<T: Buf>(&mut self, mut src: T) where Self: Sized {
        let n = src.remaining(); self.put_slice(&src.chunk()[..n]); src.advance(n);
    }
}
impl BufMut for BytesMut { fn put_slice(&mut self, s: &[u8]) { self.v.extend_from_slice(s) } }
impl PartialEq<Bytes> for Vec<u8> { fn eq(&self, o: &Bytes) -> bool { self[..] == o.v[..] } }
impl PartialEq<Vec<u8>> for Bytes { fn eq(&self, o: &Vec<u8>) -> bool { self.v[..] == o[..] } }
