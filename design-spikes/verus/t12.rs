use vstd::prelude::*;
use vstd::string::StringSliceAdditionalSpecFns;
verus! {

// ---------- assumed contracts: bytes + str byte view ----------
#[verifier::external_body] pub struct BytesMut { _p: u8 }
impl BytesMut {
    pub uninterp spec fn view(&self) -> Seq<u8>;
    #[verifier::external_body] pub fn put_u8(&mut self, n: u8) ensures final(self)@ == old(self)@.push(n) { unimplemented!() }
    #[verifier::external_body] pub fn put_u16(&mut self, n: u16) ensures final(self)@ == old(self)@.push((n >> 8) as u8).push((n & 0xff) as u8) { unimplemented!() }
    #[verifier::external_body] pub fn put(&mut self, s: &[u8]) ensures final(self)@ == old(self)@ + s@ { unimplemented!() }
}
pub open spec fn str_bytes(s: &str) -> Seq<u8> { s.spec_bytes() }

// ---------- repo traits, annotated ----------
pub trait ByteLen {
    spec fn spec_byte_len(&self) -> nat;
    fn byte_len(&self) -> (r: usize)
        requires self.spec_byte_len() <= usize::MAX
        ensures r == self.spec_byte_len();
}
pub trait Encode: ByteLen {
    spec fn wire(&self) -> Seq<u8>;
    spec fn enc_ok(&self) -> bool;
    proof fn wire_len(&self) requires self.enc_ok() ensures self.wire().len() == self.spec_byte_len();
    fn encode(&self, buf: &mut BytesMut)
        requires self.enc_ok()
        ensures final(buf)@ == old(buf)@ + self.wire();
}

pub open spec fn be16(n: nat) -> Seq<u8> { seq![(n / 256) as u8, (n % 256) as u8] }

// ---------- repo code: UTF8StringRef (base_types.rs) ----------
#[derive(Clone, Copy)]
pub struct UTF8StringRef<'a>(pub &'a str);

impl<'a> ByteLen for UTF8StringRef<'a> {
    open spec fn spec_byte_len(&self) -> nat { str_bytes(self.0).len() + 2 }
    fn byte_len(&self) -> usize {
        self.0.len() + core::mem::size_of::<u16>()
    }
}

impl<'a> Encode for UTF8StringRef<'a> {
    open spec fn wire(&self) -> Seq<u8> { be16(str_bytes(self.0).len()) + str_bytes(self.0) }
    open spec fn enc_ok(&self) -> bool { str_bytes(self.0).len() <= 65535 }
    proof fn wire_len(&self) {}
    fn encode(&self, buf: &mut BytesMut) {
        buf.put_u16(self.0.len() as u16);
        buf.put(self.0.as_bytes());
        proof {
            let n = str_bytes(self.0).len();
            let m: u16 = n as u16;
            assert((m >> 8) as u8 == (m / 256) as u8 && (m & 0xff) as u8 == (m % 256) as u8) by (bit_vector);
            assert(old(buf)@.push((n / 256) as u8).push((n % 256) as u8) =~= old(buf)@ + be16(n));
            assert(old(buf)@ + be16(n) + str_bytes(self.0) =~= old(buf)@ + (be16(n) + str_bytes(self.0)));
        }
    }
}

// ---------- generic helper for W5: xs.iter().map(ByteLen::byte_len).sum::<usize>() ----------
pub open spec fn sum_len<T: ByteLen>(xs: Seq<T>) -> nat
    decreases xs.len()
{ if xs.len() == 0 { 0 } else { sum_len(xs.drop_last()) + xs.last().spec_byte_len() } }

pub fn sum_byte_len<T: ByteLen>(xs: &Vec<T>) -> (r: usize)
    requires sum_len(xs@) <= usize::MAX
    ensures r == sum_len(xs@)
{
    let mut acc: usize = 0;
    let mut i: usize = 0;
    while i < xs.len()
        invariant i <= xs.len(), acc == sum_len(xs@.take(i as int)), sum_len(xs@) <= usize::MAX,
        decreases xs.len() - i
    {
        proof {
            assert(xs@.take(i as int + 1).drop_last() =~= xs@.take(i as int));
            lemma_sum_mono::<T>(xs@, i as int + 1);
        }
        acc = acc + xs[i].byte_len();
        i += 1;
    }
    proof { assert(xs@.take(xs.len() as int) =~= xs@); }
    acc
}
pub proof fn lemma_sum_mono<T: ByteLen>(xs: Seq<T>, k: int)
    requires 0 <= k <= xs.len()
    ensures sum_len(xs.take(k)) <= sum_len(xs)
    decreases xs.len() - k
{
    if k < xs.len() {
        assert(xs.take(k + 1).drop_last() =~= xs.take(k));
        lemma_sum_mono::<T>(xs, k + 1);
    } else { assert(xs.take(k) =~= xs); }
}

// ---------- repo code: u8 / u16 / NonZero<u16> / VarSizeInt(abstracted) ----------
impl ByteLen for u8 {
    open spec fn spec_byte_len(&self) -> nat { 1 }
    fn byte_len(&self) -> usize { core::mem::size_of::<Self>() }
}
impl Encode for u8 {
    open spec fn wire(&self) -> Seq<u8> { seq![*self] }
    open spec fn enc_ok(&self) -> bool { true }
    proof fn wire_len(&self) {}
    fn encode(&self, buf: &mut BytesMut) { buf.put_u8(*self); proof { assert(old(buf)@.push(*self) =~= old(buf)@ + seq![*self]); } }
}

pub trait PropertyID { const PROPERTY_ID: u8; }

// declare_property_ref!(UserPropertyRef-like, here over UTF8StringRef for brevity, id 38) -- macro expansion text
#[derive(Clone, Copy)]
pub struct ReasonStringRef<'a>(pub UTF8StringRef<'a>);
impl<'a> PropertyID for ReasonStringRef<'a> { const PROPERTY_ID: u8 = 31; }
impl<'a> ByteLen for ReasonStringRef<'a> {
    open spec fn spec_byte_len(&self) -> nat { 1 + self.0.spec_byte_len() }
    fn byte_len(&self) -> usize {
        core::mem::size_of_val(&Self::PROPERTY_ID) + self.0.byte_len()
    }
}
impl<'a> Encode for ReasonStringRef<'a> {
    open spec fn wire(&self) -> Seq<u8> { seq![31u8] + self.0.wire() }
    open spec fn enc_ok(&self) -> bool { self.0.enc_ok() }
    proof fn wire_len(&self) { self.0.wire_len(); }
    fn encode(&self, buf: &mut BytesMut) {
        Self::PROPERTY_ID.encode(buf);
        self.0.encode(buf);
        proof { assert(old(buf)@ + seq![31u8] + self.0.wire() =~= old(buf)@ + (seq![31u8] + self.0.wire())); }
    }
}

// ---------- repo code: Encoder (core/utils.rs) ----------
pub struct Encoder<'a> { pub buf: &'a mut BytesMut }
impl<'a> Encoder<'a> {
    pub fn encode<T>(&mut self, val: T)
    where T: Encode,
        requires val.enc_ok()
        ensures final(self).buf@ == old(self).buf@ + val.wire()
    {
        val.encode(self.buf)
    }
}
}
fn main() {}
