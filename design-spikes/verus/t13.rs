use vstd::prelude::*;
verus! {
#[verifier::external_body] pub struct Bytes { _p: u8 }
impl Bytes {
    pub uninterp spec fn view(&self) -> Seq<u8>;
    #[verifier::external_body] pub fn clone(&self) -> (r: Bytes) ensures r@ == self@ { unimplemented!() }
    #[verifier::external_body] pub fn len(&self) -> (r: usize) ensures r == self@.len() { unimplemented!() }
    #[verifier::external_body] pub fn first(&self) -> (r: Option<&u8>) ensures self@.len() == 0 ==> r is None, self@.len() > 0 ==> r == Some(&self@[0]) { unimplemented!() }
    #[verifier::external_body] pub fn advance(&mut self, n: usize) requires n <= old(self)@.len() ensures final(self)@ == old(self)@.skip(n as int) { unimplemented!() }
}

pub assume_specification<'a, T: Copy> [core::option::Option::<&'a T>::copied] (o: Option<&'a T>) -> (r: Option<T>)
    ensures o is None ==> r is None, o is Some ==> r == Some(*o->Some_0);

pub struct InsufficientBufferSize;
pub struct InvalidValue;
pub enum ConversionError { InsufficientBufferSize(InsufficientBufferSize), InvalidValue(InvalidValue) }
impl From<InsufficientBufferSize> for ConversionError { fn from(e: InsufficientBufferSize) -> (r: Self) { ConversionError::InsufficientBufferSize(e) } }

pub trait ByteLen {
    spec fn spec_byte_len(&self) -> nat;
    fn byte_len(&self) -> (r: usize) ensures r == self.spec_byte_len();
}
pub trait TryDecode: Sized + ByteLen {
    type Error;
    // standard's parser for this type: value and consumed length
    spec fn parse(b: Seq<u8>) -> Option<Self>;
    fn try_decode(buf: Bytes) -> (r: Result<Self, Self::Error>)
        ensures
            r is Ok ==> Self::parse(buf@) == Some(r->Ok_0) && r->Ok_0.spec_byte_len() <= buf@.len(),
            r is Err ==> Self::parse(buf@) is None;
}

impl ByteLen for u8 { open spec fn spec_byte_len(&self) -> nat { 1 } fn byte_len(&self) -> usize { core::mem::size_of::<Self>() } }
impl TryDecode for u8 {
    type Error = ConversionError;
    open spec fn parse(b: Seq<u8>) -> Option<u8> { if b.len() >= 1 { Some(b[0]) } else { None } }
    fn try_decode(bytes: Bytes) -> Result<Self, Self::Error> {
        bytes
            .first()
            .copied()
            .ok_or_else(|| InsufficientBufferSize.into())
    }
}

pub struct Decoder { pub buf: Bytes }
impl Decoder {
    pub fn advance_by(&mut self, n: usize)
        requires n <= old(self).buf@.len() ensures final(self).buf@ == old(self).buf@.skip(n as int)
    { self.buf.advance(n); }

    pub fn remaining(&self) -> (r: usize) ensures r == self.buf@.len() { self.buf.len() }

    pub fn try_decode<T>(&mut self) -> (r: Result<T, T::Error>)
    where T: Sized + TryDecode + ByteLen,
        ensures
            r is Ok ==> T::parse(old(self).buf@) == Some(r->Ok_0)
                && final(self).buf@ == old(self).buf@.skip(r->Ok_0.spec_byte_len() as int),
            r is Err ==> final(self).buf@ == old(self).buf@,
    {
        let result = T::try_decode(self.buf.clone())?;
        self.advance_by(result.byte_len());
        Ok(result)
    }
}

// W6-rewritten:  for x in decoder.iter::<u8>() { total += x? as usize }   (DecodeIter::next inlined per its definition)
pub fn sum_all(mut decoder: Decoder) -> (r: Result<usize, ConversionError>)
    requires decoder.buf@.len() < 1000
{
    let mut total: usize = 0;
    loop
        invariant decoder.buf@.len() < 1000, total <= 255 * (1000 - decoder.buf@.len()),
        decreases decoder.buf@.len()
    {
        if decoder.remaining() == 0 { break; }
        let x = decoder.try_decode::<u8>()?;
        total = total + x as usize;
    }
    Ok(total)
}
}
fn main() {}
