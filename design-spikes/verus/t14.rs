use vstd::prelude::*;
use std::collections::VecDeque;
verus! {
// ================= assumed-contract stand-ins =================
#[verifier::external_body] #[verifier::reject_recursive_types(T)] pub struct OneshotSender<T> { _p: core::marker::PhantomData<T> }
#[verifier::external_body] #[verifier::reject_recursive_types(T)] pub struct UnboundedSender<T> { _p: core::marker::PhantomData<T> }

pub struct TxPacketStream { pub wire: Ghost<Seq<Seq<u8>>> }

pub struct InternalError { pub msg: &'static str }
pub enum MqttError { InternalError(InternalError), SocketClosed, Disconnected(DisconnectRx) }

// ================= repo types (extracted; only fields the handler reads are kept) =================
#[derive(Clone, Copy, PartialEq, Eq)] pub enum QoS { AtMostOnce = 0, AtLeastOnce = 1, ExactlyOnce = 2 }
#[derive(Clone, Copy)] pub struct NonZeroU16(pub u16);
impl NonZeroU16 { pub fn get(&self) -> (r: u16) ensures r == self.0 { self.0 } }

pub struct PublishRx { pub qos: QoS, pub packet_identifier: Option<NonZeroU16>, pub subscription_identifier: Option<u32> }
pub struct AckRx { pub packet_identifier: NonZeroU16, pub reason: u8 }
pub struct DisconnectRx { pub reason: u8 }
pub enum RxPacket { Connack, Publish(PublishRx), Puback(AckRx), Pubrec(AckRx), Pubrel(AckRx), Pubcomp(AckRx), Suback(AckRx), Unsuback(AckRx), Pingresp, Disconnect(DisconnectRx), Auth }

impl OneshotSender<Result<RxPacket, MqttError>> {
    pub uninterp spec fn key(&self) -> int;
    // assumed futures contract: fails iff the receiver was dropped; misdelivery is a *precondition*
    #[verifier::external_body]
    pub fn send(self, t: Result<RxPacket, MqttError>) -> (r: Result<(), Result<RxPacket, MqttError>>)
        requires t is Ok ==> spec_rx_action_id(t->Ok_0) == Some(self.key())
    { unimplemented!() }
}
impl UnboundedSender<RxPacket> {
    pub uninterp spec fn sub_key(&self) -> int;
    #[verifier::external_body]
    pub fn unbounded_send(&self, t: RxPacket) -> (r: Result<(), RxPacket>) { unimplemented!() }
}

pub struct Session {
    pub awaiting_ack: VecDeque<(usize, OneshotSender<Result<RxPacket, MqttError>>)>,
    pub subscriptions: VecDeque<(usize, UnboundedSender<RxPacket>)>,
    pub retrasmit_queue: VecDeque<(usize, u8)>,
}
pub struct Connection { pub remote_receive_maximum: u16, pub send_quota: u16 }

pub open spec fn session_inv(s: Session) -> bool {
    forall|i: int| 0 <= i < s.awaiting_ack@.len() ==> (#[trigger] s.awaiting_ack@[i]).1.key() == s.awaiting_ack@[i].0
}

// ---------- leaf contracts (proved by Kani on the real functions) ----------
pub open spec fn spec_rx_action_id(p: RxPacket) -> Option<int> {
    match p {
        RxPacket::Suback(a) => Some(9 * 0x1000000 + a.packet_identifier.0 * 256),
        RxPacket::Unsuback(a) => Some(11 * 0x1000000 + a.packet_identifier.0 * 256),
        RxPacket::Pingresp => Some(13 * 0x1000000 as int),
        RxPacket::Puback(a) => Some(4 * 0x1000000 + a.packet_identifier.0 * 256),
        RxPacket::Pubrec(a) => Some(5 * 0x1000000 + a.packet_identifier.0 * 256),
        RxPacket::Pubrel(a) => Some(6 * 0x1000000 + a.packet_identifier.0 * 256),
        RxPacket::Pubcomp(a) => Some(7 * 0x1000000 + a.packet_identifier.0 * 256),
        _ => None,
    }
}
#[verifier::external_body]
pub fn rx_action_id(packet: &RxPacket) -> (r: usize)
    requires spec_rx_action_id(*packet) is Some      // from the `unreachable!` in the real function
    ensures r == spec_rx_action_id(*packet)->Some_0
{ unimplemented!() }

#[verifier::external_body]
pub fn linear_search_by_key<V>(deque: &VecDeque<(usize, V)>, key: usize) -> (r: Option<usize>)
    ensures
        r is Some ==> r->Some_0 < deque@.len() && deque@[r->Some_0 as int].0 == key
            && forall|j: int| 0 <= j < r->Some_0 ==> deque@[j].0 != key,
        r is None ==> forall|j: int| 0 <= j < deque@.len() ==> deque@[j].0 != key,
{ unimplemented!() }

pub open spec fn ack_wire(hdr: u8, id: u16) -> Seq<u8> { seq![hdr, 2u8, (id / 256) as u8, (id % 256) as u8] }
#[verifier::external_body]
pub async fn ack_puback(tx: &mut TxPacketStream, packet_id: NonZeroU16) -> (r: Result<(), MqttError>)
    ensures r is Ok ==> final(tx).wire@ == old(tx).wire@.push(ack_wire(0x40, packet_id.0)), r is Err ==> final(tx).wire@ == old(tx).wire@
{ unimplemented!() }
#[verifier::external_body]
pub async fn ack_pubrec(tx: &mut TxPacketStream, packet_id: NonZeroU16) -> (r: Result<(), MqttError>)
    ensures r is Ok ==> final(tx).wire@ == old(tx).wire@.push(ack_wire(0x50, packet_id.0)), r is Err ==> final(tx).wire@ == old(tx).wire@
{ unimplemented!() }

// ================= the handler (repo text; W1, W2 applied; `Self::ack::<R>` monomorphised) =================
    async fn handle_packet(
        tx: &mut TxPacketStream,
        connection: &mut Connection,
        session: &mut Session,
        packet: RxPacket,
    ) -> (r: Result<(), MqttError>)
        requires
            session_inv(*old(session)),
            old(connection).send_quota <= old(connection).remote_receive_maximum,
            packet matches RxPacket::Publish(p) ==> (p.qos == QoS::AtMostOnce <==> p.packet_identifier is None),
        ensures
            session_inv(*final(session)),
            // C15: a dropped caller never surfaces as an error of the context
            r is Err ==> !(r->Err_0 is InternalError),
            // C08: QoS1 publish => exactly one PUBACK with its id, whatever the subscription identifier
            packet matches RxPacket::Publish(p) ==> ((p.qos == QoS::AtLeastOnce && r is Ok)
                ==> final(tx).wire@ == old(tx).wire@.push(ack_wire(0x40, p.packet_identifier->Some_0.0))),
            // C10: PUBACK frees one slot, bounded by R
            packet is Puback ==> final(connection).send_quota ==
                (if old(connection).send_quota < old(connection).remote_receive_maximum { (old(connection).send_quota + 1) as u16 } else { old(connection).send_quota }),
            // C10: failing PUBREC frees one slot
            packet matches RxPacket::Pubrec(a) ==> (a.reason >= 0x80 ==> final(connection).send_quota ==
                (if old(connection).send_quota < old(connection).remote_receive_maximum { (old(connection).send_quota + 1) as u16 } else { old(connection).send_quota })),
    {
        match packet {
            RxPacket::Publish(publish) => {
                if let Some(subscription_identifier) =
                    publish
                        .subscription_identifier
                        .map(|subscription_identifier: u32| {
                            subscription_identifier as usize
                        })
                {
                    let qos = publish.qos;
                    let maybe_packet_id = publish.packet_identifier;

                    if let Some(pos) = linear_search_by_key(&session.subscriptions, subscription_identifier) {
                        // User may drop the receiving stream,
                        // in that case remove it from the active subscriptions map.
                        if (session.subscriptions[pos].1.unbounded_send(RxPacket::Publish(publish))).is_err() {
                            match linear_search_by_key(
                                &session.subscriptions,
                                subscription_identifier,
                            ) { Some(pos) => { session.subscriptions.remove(pos); } None => {} }
                        }
                    }

                    if let Some(packet_id) = maybe_packet_id {
                        match qos {
                            QoS::AtLeastOnce => ack_puback(tx, packet_id).await?,
                            QoS::ExactlyOnce => ack_pubrec(tx, packet_id).await?,
                            _ => unreachable!("No acknowledgement for QoS==0."),
                        }
                    }
                }
            }
            RxPacket::Puback(puback) => {
                let rx_packet = RxPacket::Puback(puback);
                let action_id = rx_action_id(&rx_packet);

                if connection.send_quota != connection.remote_receive_maximum {
                    connection.send_quota += 1;
                }

                match linear_search_by_key(&session.retrasmit_queue, action_id) { Some(pos) => { session.retrasmit_queue.remove(pos); } None => {} }

                if let Some((_, sender)) =
                    match linear_search_by_key(&session.awaiting_ack, action_id) { Some(pos) => session.awaiting_ack.remove(pos), None => None }
                {
                    sender
                        .send(Ok(rx_packet))
                        .map_err(|_e| MqttError::InternalError(InternalError { msg: "Unable to complete async operation." }))?;
                }
            }
            other => {
                let action_id = rx_action_id(&other);

                if let Some((_, sender)) =
                    match linear_search_by_key(&session.awaiting_ack, action_id) { Some(pos) => session.awaiting_ack.remove(pos), None => None }
                {
                    sender
                        .send(Ok(other))
                        .map_err(|_e| MqttError::InternalError(InternalError { msg: "Unable to complete async operation." }))?;
                }
            }
        }

        Ok(())
    }
}
fn main() {}
