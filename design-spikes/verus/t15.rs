use vstd::prelude::*;
verus! {
// ---- assumed-contract stand-ins ----
pub assume_specification<T, E, U, F: FnOnce(T) -> Result<U, E>> [Result::<T, E>::and_then](res: Result<T, E>, f: F) -> (out: Result<U, E>)
    requires res is Ok ==> f.requires((res->Ok_0,)),
    ensures
        res is Ok ==> f.ensures((res->Ok_0,), out),
        res is Err ==> out is Err && out->Err_0 == res->Err_0;

#[verifier::external_body] pub struct AtomicU16 { _p: u8 }
pub enum Ordering { Relaxed }
impl AtomicU16 {
    #[verifier::external_body] pub fn fetch_add(&self, v: u16, o: Ordering) -> (r: u16) { unimplemented!() }   // returns *any* u16
}
#[verifier::external_body] #[verifier::reject_recursive_types(T)] pub struct Sender<T> { _p: core::marker::PhantomData<T> }
#[verifier::external_body] #[verifier::reject_recursive_types(T)] pub struct Receiver<T> { _p: core::marker::PhantomData<T> }
pub struct Canceled;
impl<T> Receiver<T> {
    pub uninterp spec fn key(&self) -> int;
    #[verifier::external_body] pub async fn recv(self) -> (r: Result<T, Canceled>) { unimplemented!() }
}
impl<T> Sender<T> { pub uninterp spec fn key(&self) -> int; }
#[verifier::external_body]
pub fn channel<T>() -> (r: (Sender<T>, Receiver<T>)) ensures r.0.key() == r.1.key() { unimplemented!() }

#[verifier::external_body] #[verifier::reject_recursive_types(T)] pub struct UnboundedSender<T> { _p: core::marker::PhantomData<T> }
pub struct TrySendError;
impl<T> UnboundedSender<T> { #[verifier::external_body] pub fn unbounded_send(&self, m: T) -> (r: Result<(), TrySendError>) { unimplemented!() } }

pub struct ContextExited;
pub enum MqttError { ContextExited(ContextExited), Codec, PubackError(u8) }
pub enum RxPacket { Puback(u8), Other }
pub struct AwaitAck { pub action_id: usize, pub response_channel: Sender<Result<RxPacket, MqttError>> }
pub enum ContextMessage { AwaitAck(AwaitAck) }

pub struct PublishOpts { pub id: Option<u16> }
impl PublishOpts {
    // repo: self.builder.packet_identifier(NonZero::try_from(val).unwrap())
    #[verifier::external_body]
    pub fn packet_identifier(self, val: u16) -> (r: Self) requires val != 0 ensures r.id == Some(val) { unimplemented!() }
}

pub struct ContextHandle { pub sender: UnboundedSender<ContextMessage>, pub packet_id: AtomicU16 }

impl ContextHandle {
    pub async fn publish_qos1(&mut self, opts: PublishOpts) -> (r: Result<(), MqttError>) {
        let packet = opts
            .packet_identifier(self.packet_id.fetch_add(1, Ordering::Relaxed));

        let (sender, receiver) = channel();

        let message = ContextMessage::AwaitAck(AwaitAck {
            action_id: 1,
            response_channel: sender,
        });

        match self.sender.unbounded_send(message) { Ok(_) => {}, Err(_) => { return Err(MqttError::ContextExited(ContextExited)); } }

        match receiver.recv().await { Ok(x) => x, Err(_) => { return Err(MqttError::ContextExited(ContextExited)); } }
            .map(|rx_packet: RxPacket| match rx_packet {
                RxPacket::Puback(puback) => puback,
                _ => unreachable!("Unexpected packet type."),
            })
            .and_then(|puback: u8| {
                if puback >= 0x80 {
                    Err(MqttError::PubackError(puback))
                } else {
                    Ok(())
                }
            })
    }
}
}
fn main() {}
