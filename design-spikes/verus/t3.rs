use vstd::prelude::*;
verus! {

pub struct ValueExceedesMaximum;
pub struct InvalidEncoding;
pub struct InsufficientBufferSize;
pub enum ConversionError { ValueExceedesMaximum(ValueExceedesMaximum), InvalidEncoding(InvalidEncoding), InsufficientBufferSize(InsufficientBufferSize) }

#[derive(Copy, Clone, PartialEq, Debug, Eq, PartialOrd)]
pub enum VarSizeIntState {
    SingleByte(u8),
    TwoByte(u16),
    ThreeByte(u32),
    FourByte(u32),
}

#[derive(Copy, Clone, PartialEq, Debug, Eq)]
pub struct VarSizeInt(pub VarSizeIntState);

impl VarSizeInt {
    pub const MAX: usize = 0x0fffffff;

    pub open spec fn spec_len(&self) -> nat { match self.0 { VarSizeIntState::SingleByte(_) => 1, VarSizeIntState::TwoByte(_) => 2, VarSizeIntState::ThreeByte(_) => 3, VarSizeIntState::FourByte(_) => 4 } }
    pub open spec fn spec_value(&self) -> nat { match self.0 { VarSizeIntState::SingleByte(v) => v as nat, VarSizeIntState::TwoByte(v) => v as nat, VarSizeIntState::ThreeByte(v) => v as nat, VarSizeIntState::FourByte(v) => v as nat } }
    pub(crate) fn len(&self) -> (r: usize) ensures r == self.spec_len() {
        match self.0 {
            VarSizeIntState::SingleByte(_) => 1,
            VarSizeIntState::TwoByte(_) => 2,
            VarSizeIntState::ThreeByte(_) => 3,
            VarSizeIntState::FourByte(_) => 4,
        }
    }

    pub(crate) fn value(&self) -> u32 {
        match self.0 {
            VarSizeIntState::SingleByte(val) => val as u32,
            VarSizeIntState::TwoByte(val) => val as u32,
            VarSizeIntState::ThreeByte(val) => val,
            VarSizeIntState::FourByte(val) => val,
        }
    }
}

impl TryFrom<u32> for VarSizeInt {
    type Error = ConversionError;

    fn try_from(val: u32) -> (r: Result<Self, Self::Error>)
        ensures
            val <= 0x0fffffff ==> r is Ok && r->Ok_0.spec_value() == val && r->Ok_0.spec_len() == vbi_len(val as nat),
            val > 0x0fffffff ==> r is Err,
    {
        if val <= 127 {
            Ok(Self(VarSizeIntState::SingleByte(val as u8)))
        } else if (128..=16383).contains(&val) {
            Ok(Self(VarSizeIntState::TwoByte(val as u16)))
        } else if (16384..=2097151).contains(&val) {
            Ok(Self(VarSizeIntState::ThreeByte(val)))
        } else if val as usize <= Self::MAX {
            Ok(Self(VarSizeIntState::FourByte(val)))
        } else {
            Err(ConversionError::ValueExceedesMaximum(ValueExceedesMaximum))
        }
    }
}


pub open spec fn vbi_len(v: nat) -> nat { if v <= 127 { 1 } else if v <= 16383 { 2 } else if v <= 2097151 { 3 } else { 4 } }
} // verus!
fn main() {}
