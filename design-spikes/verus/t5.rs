use vstd::prelude::*;
verus! {
pub struct Conn { pub send_quota: u16, pub rmax: u16 }
pub enum E { Internal, Quota }

#[verifier::external_body]
pub struct Tx { _p: u8 }
impl Tx {
    #[verifier::external_body]
    pub async fn write(&mut self, b: &[u8]) -> (r: Result<(), E>) { unimplemented!() }
}

pub async fn step(tx: &mut Tx, c: &mut Conn, pkt: &[u8]) -> (r: Result<(), E>)
    ensures r is Ok ==> final(c).send_quota + 1 == old(c).send_quota,
{
    if c.send_quota == 0 { return Err(E::Quota); }
    c.send_quota -= 1;
    tx.write(pkt).await?;
    Ok(())
}
}
fn main() {}
