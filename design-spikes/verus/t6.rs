use vstd::prelude::*;
verus! {
pub struct Enc<'a> { pub buf: &'a mut Vec<u8> }
impl<'a> Enc<'a> {
    pub fn put(&mut self, v: u8)
        ensures final(self).buf@ == old(self).buf@.push(v)
    { self.buf.push(v); }
}
pub enum E { Internal }
pub fn f(x: Result<u8, u16>) -> (r: Result<u8, E>) {
    let v = x.map_err(|_e: u16| E::Internal)?;
    Ok(v)
}
pub fn g(o: Option<usize>, v: &mut Vec<u8>) -> Option<u8> {
    o.and_then(|pos: usize| if pos < v.len() { Some(v.remove(pos)) } else { None })
}
}
fn main() {}
