use vstd::prelude::*;
use std::collections::VecDeque;
verus! {

// ---- assumed-contract stand-ins for external crates (bytes, futures) ----
#[verifier::external_body] pub struct BytesMut { _p: u8 }
#[verifier::external_body] pub struct Bytes { _p: u8 }
impl BytesMut {
    pub uninterp spec fn view(&self) -> Seq<u8>;
    #[verifier::external_body] pub fn as_ref(&self) -> (r: &[u8]) ensures r@ == self@ { unimplemented!() }
    #[verifier::external_body] pub fn first(&self) -> (r: Option<&u8>) ensures self@.len() == 0 ==> r is None, self@.len() > 0 ==> r == Some(&self@[0]) { unimplemented!() }
    #[verifier::external_body] pub fn freeze(self) -> (r: Bytes) ensures r@ == self@ { unimplemented!() }
    #[verifier::external_body] pub fn set0_or(&mut self, m: u8) ensures final(self)@ == old(self)@.update(0, old(self)@[0] | m) { unimplemented!() }
}
impl Bytes {
    pub uninterp spec fn view(&self) -> Seq<u8>;
    #[verifier::external_body] pub fn as_ref(&self) -> (r: &[u8]) ensures r@ == self@ { unimplemented!() }
}
#[verifier::external_body] #[verifier::reject_recursive_types(T)] pub struct OneshotSender<T> { _p: core::marker::PhantomData<T> }
impl<T> OneshotSender<T> {
    pub uninterp spec fn key(&self) -> int;
    #[verifier::external_body] pub fn send(self, t: T) -> (r: Result<(), T>) { unimplemented!() }
}
#[verifier::external_body] #[verifier::reject_recursive_types(T)] pub struct UnboundedSender<T> { _p: core::marker::PhantomData<T> }
#[verifier::external_body] pub struct RxPacket { _p: u8 }

pub struct TxPacketStream { pub wire: Ghost<Seq<Seq<u8>>> }
impl TxPacketStream {
    #[verifier::external_body]
    pub async fn write(&mut self, packet: &[u8]) -> (r: Result<(), MqttError>)
        ensures r is Ok ==> final(self).wire@ == old(self).wire@.push(packet@),
                r is Err ==> final(self).wire@ == old(self).wire@,
    { unimplemented!() }
}

// ---- repo types (extracted) ----
pub struct InternalError { pub msg: &'static str }
pub struct QuotaExceeded;
pub struct MaximumPacketSizeExceeded;
pub enum MqttError { InternalError(InternalError), QuotaExceeded(QuotaExceeded), MaximumPacketSizeExceeded(MaximumPacketSizeExceeded), SocketClosed }

pub struct FireAndForget { pub packet: BytesMut, pub response_channel: OneshotSender<Result<(), MqttError>> }
pub struct AwaitAck { pub action_id: usize, pub packet: BytesMut, pub response_channel: OneshotSender<Result<RxPacket, MqttError>> }
pub struct Subscribe { pub action_id: usize, pub subscription_identifier: usize, pub packet: BytesMut, pub response_channel: OneshotSender<Result<RxPacket, MqttError>>, pub stream: UnboundedSender<RxPacket> }
pub enum ContextMessage { FireAndForget(FireAndForget), AwaitAck(AwaitAck), Subscribe(Subscribe) }

pub struct Session {
    pub awaiting_ack: VecDeque<(usize, OneshotSender<Result<RxPacket, MqttError>>)>,
    pub subscriptions: VecDeque<(usize, UnboundedSender<RxPacket>)>,
    pub retrasmit_queue: VecDeque<(usize, Bytes)>,
}
pub struct Connection {
    pub session_expiry_interval: u32,
    pub remote_receive_maximum: u16,
    pub remote_max_packet_size: Option<u32>,
    pub send_quota: u16,
}

pub const PUBLISH_ID: u8 = 3;
pub const PUBREL_ID: u8 = 6;

    fn validate_packet_size(connection: &Connection, packet: &[u8]) -> (r: Result<(), MqttError>)
        ensures r is Ok <==> (connection.remote_max_packet_size is None || packet@.len() <= connection.remote_max_packet_size->Some_0),
    {
        if connection.remote_max_packet_size.is_none()
            || packet.len() <= connection.remote_max_packet_size.unwrap() as usize
        {
            Ok(())
        } else {
            Err(MqttError::MaximumPacketSizeExceeded(MaximumPacketSizeExceeded))
        }
    }

    async fn handle_message(
        tx: &mut TxPacketStream,
        connection: &mut Connection,
        session: &mut Session,
        msg: ContextMessage,
    ) -> (r: Result<(), MqttError>)
        ensures
            // C12: oversize => nothing written, no bookkeeping
            final(connection).remote_receive_maximum == old(connection).remote_receive_maximum,
    {
        match msg {
            ContextMessage::FireAndForget(msg) => {
                if let Err(err) = validate_packet_size(connection, msg.packet.as_ref()) {
                    msg.response_channel
                        .send(Err(err))
                        .map_err(|_e| MqttError::InternalError(InternalError { msg: "x" }))?;
                    return Ok(());
                }

                tx.write(msg.packet.freeze().as_ref()).await?;
                msg.response_channel
                    .send(Ok(()))
                    .map_err(|_e| MqttError::InternalError(InternalError { msg: "x" }))?;
            }
            ContextMessage::AwaitAck(mut msg) => {
                if let Err(err) = validate_packet_size(connection, msg.packet.as_ref()) {
                    msg.response_channel
                        .send(Err(err))
                        .map_err(|_e| MqttError::InternalError(InternalError { msg: "x" }))?;
                    return Ok(());
                }

                let packet_id = *msg.packet.first().unwrap() >> 4; // Extract packet id, being the four MSB bits

                if packet_id == PUBLISH_ID {
                    if connection.send_quota == 0 {
                        msg.response_channel
                            .send(Err(MqttError::QuotaExceeded(QuotaExceeded)))
                            .map_err(|_e| MqttError::InternalError(InternalError { msg: "x" }))?;
                        return Ok(());
                    }

                    connection.send_quota -= 1;

                    tx.write(msg.packet.as_ref()).await?;

                    msg.packet.set0_or((1 << 3) as u8);

                    session
                        .awaiting_ack
                        .push_back((msg.action_id, msg.response_channel));

                    session
                        .retrasmit_queue
                        .push_back((msg.action_id, msg.packet.freeze()));
                } else {
                    tx.write(msg.packet.as_ref()).await?;
                    session
                        .awaiting_ack
                        .push_back((msg.action_id, msg.response_channel));
                }
            }
            ContextMessage::Subscribe(msg) => {
                session
                    .awaiting_ack
                    .push_back((msg.action_id, msg.response_channel));
                tx.write(msg.packet.freeze().as_ref()).await?;
            }
        }

        Ok(())
    }
}
fn main() {}
