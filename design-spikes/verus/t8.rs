use vstd::prelude::*;
use std::collections::VecDeque;
verus! {
pub struct InternalError { pub msg: &'static str }
pub enum MqttError { InternalError(InternalError), Other }
impl From<InternalError> for MqttError { fn from(e: InternalError) -> Self { MqttError::InternalError(e) } }
impl From<&'static str> for InternalError { fn from(s: &'static str) -> Self { InternalError { msg: s } } }

pub fn q(x: Result<u8, u16>) -> (r: Result<u8, MqttError>) {
    let v = x.map_err(|_e| InternalError::from("m"))?;   // `?` with From conversion
    Ok(v)
}

#[derive(Clone, Copy, PartialEq, Eq)]
pub enum QoS { AtMostOnce = 0, AtLeastOnce = 1, ExactlyOnce = 2 }

pub fn m(qos: QoS, id: Option<u16>) -> u8 {
    if let Some(_packet_id) = id {
        match qos {
            QoS::AtLeastOnce => 4,
            QoS::ExactlyOnce => 5,
            _ => unreachable!("No acknowledgement for QoS==0."),
        }
    } else { 0 }
}

pub fn d(dq: &mut VecDeque<(usize, u8)>, pos: usize) -> Option<(usize, u8)>
{
    dq.remove(pos)
}

pub fn t(dq: &mut VecDeque<(usize, u8)>, o: Option<usize>) -> u8 {
    if let Some((_, s)) = match o { Some(pos) => dq.remove(pos), None => None } { s } else { 0 }
}

pub fn gm(v: &mut Vec<u8>)
    requires old(v)@.len() > 0
    ensures final(v)@.len() == old(v)@.len()
{
    let fixed_hdr = v.get_mut(0).unwrap();
    *fixed_hdr |= (1 << 3) as u8;
}
}
fn main() {}
