//! Support for native replays: a scripted in-memory transport, a wake-strict single-thread
//! executor (futures LocalPool: a task is polled only after its waker fired), and an independent
//! (server-side) MQTT 5 packet writer/reader that shares no code with poster.
use futures::executor::{LocalPool, LocalSpawner};
use futures::task::LocalSpawnExt;
use futures::{AsyncRead, AsyncWrite};
use std::cell::RefCell;
use std::collections::VecDeque;
use std::future::Future;
use std::io;
use std::pin::Pin;
use std::rc::Rc;
use std::task::{Context as TaskCx, Poll, Waker};

pub enum Chunk {
    Data(Vec<u8>),
    Eof,
    Err,
}

#[derive(Default)]
pub struct RxState {
    pub chunks: VecDeque<Chunk>,
    pub waker: Option<Waker>,
    pub pending_returned: usize,
}

#[derive(Clone, Default)]
pub struct ScriptedRx(pub Rc<RefCell<RxState>>);

impl ScriptedRx {
    pub fn push(&self, data: &[u8]) {
        let mut s = self.0.borrow_mut();
        s.chunks.push_back(Chunk::Data(data.to_vec()));
        if let Some(w) = s.waker.take() {
            w.wake();
        }
    }
    pub fn push_chunk(&self, c: Chunk) {
        let mut s = self.0.borrow_mut();
        s.chunks.push_back(c);
        if let Some(w) = s.waker.take() {
            w.wake();
        }
    }
    pub fn unread(&self) -> usize {
        self.0.borrow().chunks.iter().map(|c| if let Chunk::Data(d) = c { d.len() } else { 0 }).sum()
    }
}

impl AsyncRead for ScriptedRx {
    fn poll_read(self: Pin<&mut Self>, cx: &mut TaskCx<'_>, buf: &mut [u8]) -> Poll<io::Result<usize>> {
        let mut s = self.0.borrow_mut();
        match s.chunks.pop_front() {
            None => {
                s.waker = Some(cx.waker().clone());
                s.pending_returned += 1;
                Poll::Pending
            }
            Some(Chunk::Eof) => Poll::Ready(Ok(0)),
            Some(Chunk::Err) => Poll::Ready(Err(io::Error::new(io::ErrorKind::ConnectionReset, "scripted"))),
            Some(Chunk::Data(mut d)) => {
                let n = d.len().min(buf.len());
                buf[..n].copy_from_slice(&d[..n]);
                if n < d.len() {
                    let rest = d.split_off(n);
                    s.chunks.push_front(Chunk::Data(rest));
                }
                Poll::Ready(Ok(n))
            }
        }
    }
}

#[derive(Default)]
pub struct TxState {
    pub bytes: Vec<u8>,
    pub fail_after: Option<usize>,
    pub max_per_write: Option<usize>,
}

#[derive(Clone, Default)]
pub struct RecordingTx(pub Rc<RefCell<TxState>>);

impl RecordingTx {
    pub fn bytes(&self) -> Vec<u8> {
        self.0.borrow().bytes.clone()
    }
    pub fn take(&self) -> Vec<u8> {
        std::mem::take(&mut self.0.borrow_mut().bytes)
    }
}

impl AsyncWrite for RecordingTx {
    fn poll_write(self: Pin<&mut Self>, _cx: &mut TaskCx<'_>, buf: &[u8]) -> Poll<io::Result<usize>> {
        let mut s = self.0.borrow_mut();
        if let Some(limit) = s.fail_after {
            if s.bytes.len() >= limit {
                return Poll::Ready(Err(io::Error::new(io::ErrorKind::BrokenPipe, "scripted")));
            }
        }
        let n = s.max_per_write.map(|m| m.min(buf.len())).unwrap_or(buf.len());
        s.bytes.extend_from_slice(&buf[..n]);
        Poll::Ready(Ok(n))
    }
    fn poll_flush(self: Pin<&mut Self>, _cx: &mut TaskCx<'_>) -> Poll<io::Result<()>> {
        Poll::Ready(Ok(()))
    }
    fn poll_close(self: Pin<&mut Self>, _cx: &mut TaskCx<'_>) -> Poll<io::Result<()>> {
        Poll::Ready(Ok(()))
    }
}

/// outcome slot of a spawned future
pub type Slot<T> = Rc<RefCell<Option<T>>>;

pub struct Exec {
    pub pool: LocalPool,
    pub spawner: LocalSpawner,
}

impl Default for Exec {
    fn default() -> Self {
        Self::new()
    }
}

impl Exec {
    pub fn new() -> Self {
        let pool = LocalPool::new();
        let spawner = pool.spawner();
        Self { pool, spawner }
    }
    /// spawn a future; its output lands in the returned slot
    pub fn spawn<T: 'static>(&self, f: impl Future<Output = T> + 'static) -> Slot<T> {
        let slot: Slot<T> = Rc::new(RefCell::new(None));
        let s2 = slot.clone();
        self.spawner
            .spawn_local(async move {
                let v = f.await;
                *s2.borrow_mut() = Some(v);
            })
            .unwrap();
        slot
    }
    /// run every woken task until nothing is runnable (tasks are polled only when woken)
    pub fn settle(&mut self) {
        self.pool.run_until_stalled();
    }
}

// ---------------------------------------------------------------------------------------------
// independent MQTT 5 writer (server side)
pub fn vbi(mut n: usize) -> Vec<u8> {
    let mut out = vec![];
    loop {
        let mut b = (n % 128) as u8;
        n /= 128;
        if n > 0 {
            b |= 0x80;
        }
        out.push(b);
        if n == 0 {
            break;
        }
    }
    out
}

pub fn packet(first: u8, body: &[u8]) -> Vec<u8> {
    let mut out = vec![first];
    out.extend(vbi(body.len()));
    out.extend_from_slice(body);
    out
}

pub fn str16(s: &[u8]) -> Vec<u8> {
    let mut out = (s.len() as u16).to_be_bytes().to_vec();
    out.extend_from_slice(s);
    out
}

/// CONNACK, reason + raw property bytes
pub fn connack(reason: u8, props: &[u8]) -> Vec<u8> {
    let mut body = vec![0u8, reason];
    body.extend(vbi(props.len()));
    body.extend_from_slice(props);
    packet(0x20, &body)
}

pub fn ack(first: u8, id: u16, reason: Option<u8>) -> Vec<u8> {
    let mut body = id.to_be_bytes().to_vec();
    if let Some(r) = reason {
        body.push(r);
    }
    packet(first, &body)
}

pub fn suback(id: u16, reasons: &[u8]) -> Vec<u8> {
    let mut body = id.to_be_bytes().to_vec();
    body.push(0);
    body.extend_from_slice(reasons);
    packet(0x90, &body)
}

pub fn unsuback(id: u16, reasons: &[u8]) -> Vec<u8> {
    let mut body = id.to_be_bytes().to_vec();
    body.push(0);
    body.extend_from_slice(reasons);
    packet(0xb0, &body)
}

/// PUBLISH from the server; `sub_ids`: subscription identifier properties to attach
pub fn publish(qos: u8, dup: bool, id: Option<u16>, topic: &str, sub_ids: &[u32], payload: &[u8]) -> Vec<u8> {
    let mut body = str16(topic.as_bytes());
    if let Some(id) = id {
        body.extend(id.to_be_bytes());
    }
    let mut props = vec![];
    for s in sub_ids {
        props.push(11u8);
        props.extend(vbi(*s as usize));
    }
    body.extend(vbi(props.len()));
    body.extend(props);
    body.extend_from_slice(payload);
    packet(0x30 | ((dup as u8) << 3) | (qos << 1), &body)
}

pub fn disconnect(reason: Option<u8>) -> Vec<u8> {
    match reason {
        None => packet(0xe0, &[]),
        Some(r) => packet(0xe0, &[r]),
    }
}

/// split a byte stream into MQTT frames (first byte, remaining length); panics on a malformed stream
pub fn frames(mut b: &[u8]) -> Vec<Vec<u8>> {
    let mut out = vec![];
    while !b.is_empty() {
        let mut len = 0usize;
        let mut mult = 1usize;
        let mut i = 1;
        loop {
            let byte = b[i];
            len += (byte & 127) as usize * mult;
            mult *= 128;
            i += 1;
            if byte & 128 == 0 {
                break;
            }
            assert!(i <= 4, "malformed remaining length on the wire");
        }
        assert!(b.len() >= i + len, "truncated packet on the wire: {:02x?}", b);
        out.push(b[..i + len].to_vec());
        b = &b[i + len..];
    }
    out
}

// ---------------------------------------------------------------------------------------------
/// A client connected to a scripted broker: context task running `run()`, handle for operations.
pub struct Bench {
    pub exec: Exec,
    pub rx: ScriptedRx,
    pub tx: RecordingTx,
    pub handle: poster::ContextHandle,
    pub run: Slot<Result<(), String>>,
}

pub fn errstr<T>(r: Result<T, poster::error::MqttError>) -> Result<T, String> {
    r.map_err(|e| format!("{:?}", e))
}

impl Bench {
    /// connect with default options against a CONNACK carrying `connack_props`, then start run()
    pub fn connected(connack_props: &[u8]) -> Bench {
        let mut exec = Exec::new();
        let rx = ScriptedRx::default();
        let tx = RecordingTx::default();
        let (mut ctx, handle) = poster::Context::new();
        ctx.set_up((rx.clone(), tx.clone()));
        rx.push(&connack(0, connack_props));
        let run = exec.spawn(async move {
            match ctx.connect(poster::ConnectOpts::new()).await {
                Ok(_) => {}
                Err(e) => return Err(format!("connect: {:?}", e)),
            }
            errstr(ctx.run().await)
        });
        exec.settle();
        tx.take(); // CONNECT
        Bench { exec, rx, tx, handle, run }
    }

    pub fn feed(&mut self, bytes: &[u8]) {
        self.rx.push(bytes);
        self.exec.settle();
    }

    pub fn written(&mut self) -> Vec<Vec<u8>> {
        frames(&self.tx.take())
    }

    pub fn run_result(&self) -> Option<Result<(), String>> {
        self.run.borrow().clone()
    }
}
