//! C01: every packet written is well-formed MQTT 5 and carries the caller's options
//! (checked with a small decoder written from the standard, sharing no code with poster).
use poster::*;
use poster_replay::*;
use std::time::Duration;

fn rd_vbi(b: &[u8], pos: &mut usize) -> usize {
    let (mut v, mut m) = (0usize, 1usize);
    loop {
        let x = b[*pos];
        *pos += 1;
        v += (x & 127) as usize * m;
        m *= 128;
        if x & 128 == 0 {
            return v;
        }
    }
}
fn rd_u16(b: &[u8], pos: &mut usize) -> usize {
    let v = u16::from_be_bytes([b[*pos], b[*pos + 1]]) as usize;
    *pos += 2;
    v
}
fn rd_bin<'a>(b: &'a [u8], pos: &mut usize) -> &'a [u8] {
    let n = rd_u16(b, pos);
    let r = &b[*pos..*pos + n];
    *pos += n;
    r
}
/// property section: returns (id, raw value bytes) pairs; panics if the section is not exactly `len` bytes
fn rd_props(b: &[u8], pos: &mut usize) -> Vec<(u8, Vec<u8>)> {
    let len = rd_vbi(b, pos);
    let end = *pos + len;
    let mut out = vec![];
    while *pos < end {
        let id = b[*pos];
        *pos += 1;
        let start = *pos;
        match id {
            1 | 23 | 25 | 36 | 37 | 40 | 41 | 42 => *pos += 1,
            19 | 33 | 34 | 35 => *pos += 2,
            2 | 17 | 24 | 39 => *pos += 4,
            11 => {
                rd_vbi(b, pos);
            }
            3 | 8 | 9 | 18 | 21 | 22 | 26 | 28 | 31 => {
                rd_bin(b, pos);
            }
            38 => {
                rd_bin(b, pos);
                rd_bin(b, pos);
            }
            _ => panic!("unknown property id {} at {}", id, start - 1),
        }
        out.push((id, b[start..*pos].to_vec()));
    }
    assert_eq!(*pos, end, "property length field does not match the properties that follow");
    out
}

fn connect_bytes(opts: ConnectOpts<'_>) -> Vec<u8> {
    let mut exec = Exec::new();
    let rx = ScriptedRx::default();
    let tx = RecordingTx::default();
    let (mut ctx, _h) = poster::Context::new();
    ctx.set_up((rx.clone(), tx.clone()));
    rx.push(&connack(0, &[]));
    // SAFETY of lifetimes: run to completion before opts' borrows end
    let fut = async move { ctx.connect(opts).await.map(|_| ()).map_err(|e| format!("{:?}", e)) };
    let r = futures::executor::block_on(fut);
    let _ = (&mut exec, r);
    tx.take()
}

#[test]
fn connect_with_receive_maximum_and_friends_is_well_formed() {
    let w = connect_bytes(
        ConnectOpts::new()
            .client_identifier("cid")
            .keep_alive(Duration::from_secs(30))
            .session_expiry_interval(Duration::from_secs(60))
            .receive_maximum(10)
            .maximum_packet_size(1000)
            .user_property(("k", "v"))
            .username("u")
            .password(b"pw"),
    );
    let f = frames(&w);
    assert_eq!(f.len(), 1, "exactly one packet; remaining length must cover what follows");
    let b = &f[0];
    let mut pos = 1;
    rd_vbi(b, &mut pos);
    assert_eq!(rd_bin(b, &mut pos), b"MQTT");
    assert_eq!(b[pos], 5);
    pos += 1;
    let flags = b[pos];
    pos += 1;
    assert_eq!(flags, 0x80 | 0x40, "user name and password flags only");
    assert_eq!(rd_u16(b, &mut pos), 30);
    let props = rd_props(b, &mut pos);
    assert_eq!(
        props,
        vec![(17, vec![0, 0, 0, 60]), (33, vec![0, 10]), (39, vec![0, 0, 3, 232]), (38, vec![0, 1, b'k', 0, 1, b'v'])]
    );
    assert_eq!(rd_bin(b, &mut pos), b"cid");
    assert_eq!(rd_bin(b, &mut pos), b"u");
    assert_eq!(rd_bin(b, &mut pos), b"pw");
    assert_eq!(pos, b.len());
}

#[test]
fn connect_with_will_is_well_formed() {
    let w = connect_bytes(
        ConnectOpts::new()
            .client_identifier("c")
            .clean_start(true)
            .will_topic("wt")
            .will_payload(b"wp")
            .will_qos(QoS::AtLeastOnce)
            .will_retain(true)
            .will_delay_interval(Duration::from_secs(5))
            .will_content_type("ct"),
    );
    let f = frames(&w);
    assert_eq!(f.len(), 1);
    let b = &f[0];
    let mut pos = 1;
    rd_vbi(b, &mut pos);
    rd_bin(b, &mut pos);
    pos += 1;
    assert_eq!(b[pos], 0x20 | 0x08 | 0x04 | 0x02, "will retain, will QoS 1, will flag, clean start");
    pos += 1;
    rd_u16(b, &mut pos);
    assert_eq!(rd_props(b, &mut pos), vec![]);
    assert_eq!(rd_bin(b, &mut pos), b"c");
    assert_eq!(rd_props(b, &mut pos), vec![(24, vec![0, 0, 0, 5]), (3, vec![0, 2, b'c', b't'])]);
    assert_eq!(rd_bin(b, &mut pos), b"wt");
    assert_eq!(rd_bin(b, &mut pos), b"wp");
    assert_eq!(pos, b.len());
}

#[test]
fn auth_packet_carries_a_property_length() {
    let rx = ScriptedRx::default();
    let tx = RecordingTx::default();
    let (mut ctx, _h) = poster::Context::new();
    ctx.set_up((rx.clone(), tx.clone()));
    rx.push(&connack(0, &[]));
    let _ = futures::executor::block_on(async move {
        ctx.authorize(AuthOpts::new().reason(reason::AuthReason::ContinueAuthentication).authentication_method("X").authentication_data(&[1]))
            .await
            .map(|_| ())
            .map_err(|e| format!("{:?}", e))
    });
    let w = tx.take();
    let f = frames(&w);
    assert_eq!(f.len(), 1);
    let b = &f[0];
    assert_eq!(b[0], 0xf0);
    let mut pos = 1;
    rd_vbi(b, &mut pos);
    assert_eq!(b[pos], 0x18);
    pos += 1;
    assert_eq!(rd_props(b, &mut pos), vec![(21, vec![0, 1, b'X']), (22, vec![0, 1, 1])]);
    assert_eq!(pos, b.len());
}

#[test]
fn auth_reason_string_set_by_the_caller_is_on_the_wire() {
    // AuthOpts::reason_string used to return `()`: the options were dropped and no AUTH could carry a reason string
    let rx = ScriptedRx::default();
    let tx = RecordingTx::default();
    let (mut ctx, _h) = poster::Context::new();
    ctx.set_up((rx.clone(), tx.clone()));
    rx.push(&connack(0, &[]));
    let opts: AuthOpts = AuthOpts::new()
        .reason(reason::AuthReason::ContinueAuthentication)
        .authentication_method("X")
        .authentication_data(&[1])
        .reason_string("why");
    let _ = futures::executor::block_on(async move { ctx.authorize(opts).await.map(|_| ()).map_err(|e| format!("{:?}", e)) });
    let w = tx.take();
    let f = frames(&w);
    assert_eq!(f.len(), 1);
    let b = &f[0];
    let mut pos = 1;
    rd_vbi(b, &mut pos);
    pos += 1;
    let props = rd_props(b, &mut pos);
    assert!(props.contains(&(31, vec![0, 3, b'w', b'h', b'y'])), "{:?}", props);
    assert_eq!(pos, b.len());
}

#[test]
fn subscription_options_are_at_the_standards_bit_positions() {
    let mut b = Bench::connected(&[]);
    let mut h = b.handle.clone();
    let _s = b.exec.spawn(async move {
        h.subscribe(
            SubscribeOpts::new()
                .subscription("a", SubscriptionOpts::new().maximum_qos(QoS::AtLeastOnce).no_local(true))
                .subscription("b", SubscriptionOpts::new().maximum_qos(QoS::AtMostOnce).retain_as_published(true))
                .subscription("c", SubscriptionOpts::new().maximum_qos(QoS::ExactlyOnce).retain_handling(RetainHandling::NoSendOnSubscribe)),
        )
        .await
        .map(|_| ())
        .map_err(|e| format!("{:?}", e))
    });
    b.exec.settle();
    let w = b.written();
    assert_eq!(w.len(), 1);
    let p = &w[0];
    assert_eq!(p[0], 0x82);
    let mut pos = 1;
    rd_vbi(p, &mut pos);
    assert_ne!(rd_u16(p, &mut pos), 0);
    let props = rd_props(p, &mut pos);
    assert_eq!(props.len(), 1);
    assert_eq!(props[0].0, 11);
    assert_eq!(rd_bin(p, &mut pos), b"a");
    assert_eq!(p[pos], 0x01 | 0x04, "QoS 1 | No Local (bit 2)");
    pos += 1;
    assert_eq!(rd_bin(p, &mut pos), b"b");
    assert_eq!(p[pos], 0x08, "Retain As Published (bit 3)");
    pos += 1;
    assert_eq!(rd_bin(p, &mut pos), b"c");
    assert_eq!(p[pos], 0x02 | 0x20, "QoS 2 | Retain Handling 2 (bits 5-4)");
    pos += 1;
    assert_eq!(pos, p.len());
}

#[test]
fn will_qos_and_retain_bits_are_zero_without_a_will() {
    let w = connect_bytes(ConnectOpts::new().client_identifier("c").will_qos(QoS::AtLeastOnce).will_retain(true));
    let f = frames(&w);
    let b = &f[0];
    let mut pos = 1;
    rd_vbi(b, &mut pos);
    rd_bin(b, &mut pos);
    pos += 1;
    assert_eq!(b[pos] & 0x3c, 0, "Will Flag 0 requires Will QoS 0 and Will Retain 0 [MQTT-3.1.2-11, -13], flags = {:#04x}", b[pos]);
}

#[test]
fn password_without_user_name_sets_the_password_flag() {
    // legal in MQTT 5 (3.1.2.9): e.g. token authentication
    let w = connect_bytes(ConnectOpts::new().client_identifier("c").password(b"tok"));
    let f = frames(&w);
    let b = &f[0];
    let mut pos = 1;
    rd_vbi(b, &mut pos);
    rd_bin(b, &mut pos);
    pos += 1;
    assert_eq!(b[pos], 0x40, "password flag only");
    pos += 1;
    rd_u16(b, &mut pos);
    assert_eq!(rd_props(b, &mut pos), vec![]);
    assert_eq!(rd_bin(b, &mut pos), b"c");
    assert_eq!(rd_bin(b, &mut pos), b"tok");
    assert_eq!(pos, b.len());
}

const SECS: [u64; 14] = [0, 1, 255, 256, 65535, 65536, 16_777_215, 16_777_216, 16_777_217, 2_147_483_647, 2_147_483_648, 4_294_967_293, 4_294_967_294, 4_294_967_295];

#[test]
fn numeric_options_are_written_exactly_at_boundary_values() {
    // PUBLISH message expiry interval (property 2), through the handle
    for &s in SECS.iter() {
        let mut b = Bench::connected(&[]);
        let mut h = b.handle.clone();
        let _p = b.exec.spawn(async move { errstr(h.publish(PublishOpts::new().topic_name("t").message_expiry_interval(Duration::from_secs(s)).payload(b"x")).await) });
        b.exec.settle();
        let f = b.written();
        assert_eq!(f.len(), 1, "secs={}", s);
        let w = &f[0];
        let mut pos = 1;
        rd_vbi(w, &mut pos);
        rd_bin(w, &mut pos);
        let props = rd_props(w, &mut pos);
        assert_eq!(props, vec![(2u8, (s as u32).to_be_bytes().to_vec())], "message expiry {}", s);
        assert_eq!(&w[pos..], b"x");
    }
    // CONNECT: session expiry (17), keep alive (variable header), will delay (24) and will message expiry (2)
    for &s in SECS.iter() {
        let ka = (s % 65536) as u16;
        let w = connect_bytes(
            ConnectOpts::new()
                .client_identifier("c")
                .keep_alive(Duration::from_secs(ka as u64))
                .session_expiry_interval(Duration::from_secs(s))
                .will_topic("w")
                .will_payload(b"p")
                .will_delay_interval(Duration::from_secs(s))
                .will_message_expiry_interval(Duration::from_secs(s)),
        );
        let f = frames(&w);
        let w = &f[0];
        let mut pos = 1;
        rd_vbi(w, &mut pos);
        assert_eq!(rd_bin(w, &mut pos), b"MQTT");
        pos += 2; // version, flags
        assert_eq!(rd_u16(w, &mut pos), ka as usize, "keep alive");
        let props = rd_props(w, &mut pos);
        assert!(props.contains(&(17u8, (s as u32).to_be_bytes().to_vec())), "session expiry {}: {:?}", s, props);
        assert_eq!(rd_bin(w, &mut pos), b"c");
        let wprops = rd_props(w, &mut pos);
        assert!(wprops.contains(&(24u8, (s as u32).to_be_bytes().to_vec())), "will delay {}: {:?}", s, wprops);
        assert!(wprops.contains(&(2u8, (s as u32).to_be_bytes().to_vec())), "will message expiry {}: {:?}", s, wprops);
    }
    // DISCONNECT session expiry (17), through the handle
    for &s in SECS.iter() {
        let mut b = Bench::connected(&[]);
        let mut h = b.handle.clone();
        let _d = b.exec.spawn(async move { errstr(h.disconnect(DisconnectOpts::new().session_expiry_interval(Duration::from_secs(s))).await) });
        b.exec.settle();
        let f = b.written();
        assert_eq!(f.len(), 1);
        let w = &f[0];
        let mut pos = 1;
        rd_vbi(w, &mut pos);
        pos += 1; // reason
        let props = rd_props(w, &mut pos);
        assert_eq!(props, vec![(17u8, (s as u32).to_be_bytes().to_vec())], "disconnect session expiry {}", s);
    }
}
