//! C02: well-formed inbound packets decode to exactly the values the server sent
//! (packets are produced by an encoder written from the standard, sharing no code with poster).
use futures::StreamExt;
use poster::prelude::*;
use poster::*;
use poster_replay::*;
use std::time::Duration;

fn p_u8(id: u8, v: u8) -> Vec<u8> { vec![id, v] }
fn p_u16(id: u8, v: u16) -> Vec<u8> { let mut o = vec![id]; o.extend(v.to_be_bytes()); o }
fn p_u32(id: u8, v: u32) -> Vec<u8> { let mut o = vec![id]; o.extend(v.to_be_bytes()); o }
fn p_str(id: u8, s: &[u8]) -> Vec<u8> { let mut o = vec![id]; o.extend(str16(s)); o }
fn p_pair(k: &str, v: &str) -> Vec<u8> { let mut o = vec![38u8]; o.extend(str16(k.as_bytes())); o.extend(str16(v.as_bytes())); o }

fn connect_with(connack_bytes: Vec<u8>) -> Result<Either<ConnectRsp, AuthRsp>, String> {
    let rx = ScriptedRx::default();
    let tx = RecordingTx::default();
    let (mut ctx, _h) = poster::Context::new();
    ctx.set_up((rx.clone(), tx.clone()));
    rx.push(&connack_bytes);
    futures::executor::block_on(async move { ctx.connect(ConnectOpts::new()).await.map_err(|e| format!("{:?}", e)) })
}

#[test]
fn connack_with_every_property_in_an_unusual_order() {
    let long = "é".repeat(100); // multi-byte UTF-8, 200 bytes: length needs 2 remaining-length bytes overall
    let mut props = vec![];
    props.extend(p_pair("k1", "v1"));
    props.extend(p_u8(42, 0)); // shared subscription available = false
    props.extend(p_u16(19, 77)); // server keep alive
    props.extend(p_str(26, b"resp/info"));
    props.extend(p_u32(39, 100_000)); // maximum packet size
    props.extend(p_u16(34, 12)); // topic alias maximum
    props.extend(p_u8(36, 1)); // maximum QoS 1
    props.extend(p_pair("k1", "v2")); // repeated key
    props.extend(p_str(18, b"assigned-id"));
    props.extend(p_u32(17, 3600));
    props.extend(p_u16(33, 20)); // receive maximum
    props.extend(p_u8(37, 0)); // retain available = false
    props.extend(p_u8(40, 0)); // wildcard = false
    props.extend(p_str(31, long.as_bytes())); // reason string
    props.extend(p_str(28, b"other.server"));
    props.extend(p_str(21, b"SCRAM"));
    props.extend(p_str(22, &[1, 2, 3]));
    props.extend(p_pair("", ""));
    let r = connect_with(connack(0, &props)).expect("well-formed CONNACK is accepted");
    let rsp = match r { Either::Left(rsp) => rsp, Either::Right(_) => panic!("CONNACK expected") };
    assert_eq!(rsp.session_present(), false);
    assert_eq!(rsp.reason(), reason::ConnectReason::Success);
    assert_eq!(rsp.shared_subscription_available(), false);
    assert_eq!(rsp.wildcard_subscription_available(), false);
    assert_eq!(rsp.subscription_identifier_available(), true, "absent => default true");
    assert_eq!(rsp.retain_available(), false);
    assert_eq!(rsp.maximum_qos(), QoS::AtLeastOnce);
    assert_eq!(rsp.server_keep_alive(), Some(Duration::from_secs(77)));
    assert_eq!(rsp.receive_maximum(), 20);
    assert_eq!(rsp.topic_alias_maximum(), 12);
    assert_eq!(rsp.session_expiry_interval(), Some(Duration::from_secs(3600)));
    assert_eq!(rsp.maximum_packet_size(), Some(100_000));
    assert_eq!(rsp.assigned_client_identifier(), Some("assigned-id"));
    assert_eq!(rsp.reason_string(), Some(long.as_str()));
    assert_eq!(rsp.response_information(), Some("resp/info"));
    assert_eq!(rsp.server_reference(), Some("other.server"));
    assert_eq!(rsp.authentication_method(), Some("SCRAM"));
    assert_eq!(rsp.authentication_data(), Some(&[1u8, 2, 3][..]));
    let ups: Vec<(&str, &str)> = rsp.user_properties().iter().collect();
    assert_eq!(ups, vec![("k1", "v1"), ("k1", "v2"), ("", "")]);
    assert_eq!(rsp.user_properties().get("k1").collect::<Vec<_>>(), vec!["v1", "v2"]);
}

#[test]
fn connack_without_properties_reads_as_the_standards_defaults() {
    let r = connect_with(connack(0, &[])).unwrap();
    let rsp = match r { Either::Left(rsp) => rsp, _ => panic!() };
    assert_eq!(rsp.receive_maximum(), 65535);
    assert_eq!(rsp.maximum_qos(), QoS::ExactlyOnce);
    assert_eq!(rsp.retain_available(), true);
    assert_eq!(rsp.topic_alias_maximum(), 0);
    assert_eq!(rsp.wildcard_subscription_available(), true);
    assert_eq!(rsp.shared_subscription_available(), true);
    assert_eq!((rsp.server_keep_alive(), rsp.session_expiry_interval(), rsp.maximum_packet_size()), (None, None, None));
    assert_eq!((rsp.assigned_client_identifier(), rsp.reason_string(), rsp.authentication_data()), (None, None, None));
    assert!(rsp.user_properties().is_empty());
}

#[test]
fn failing_connack_and_auth_challenge() {
    let mut props = p_str(31, b"nope");
    props.extend(p_str(28, b"try.there"));
    let e = connect_with(connack(0x9c, &props)).err().expect("reason >= 0x80 is ConnectError");
    assert!(e.contains("ConnectError") && e.contains("UseAnotherServer") && e.contains("nope") && e.contains("try.there"), "{}", e);
    // AUTH challenge: reason 0x18, method + data
    let mut ap = p_str(21, b"M");
    ap.extend(p_str(22, &[9, 9]));
    let mut body = vec![0x18];
    body.extend(vbi(ap.len()));
    body.extend(ap);
    let r = connect_with(packet(0xf0, &body)).unwrap();
    match r {
        Either::Right(a) => {
            assert_eq!(a.reason(), reason::AuthReason::ContinueAuthentication);
            assert_eq!(a.authentication_method(), Some("M"));
            assert_eq!(a.authentication_data(), Some(&[9u8, 9][..]));
        }
        _ => panic!("AUTH expected"),
    }
}

type St = std::pin::Pin<Box<dyn futures::Stream<Item = PublishData>>>;

#[test]
fn publish_properties_and_payload_sizes_across_the_buffer_steps() {
    let mut b = Bench::connected(&[]);
    let mut h = b.handle.clone();
    let s = b.exec.spawn(async move { h.subscribe(SubscribeOpts::new().subscription("a", SubscriptionOpts::new())).await.map(|r| (r.payload().to_vec(), Box::pin(r.stream()) as St)).map_err(|e| format!("{:?}", e)) });
    b.exec.settle();
    b.written();
    b.feed(&suback(1, &[0x01]));
    let (granted, mut st) = s.borrow_mut().take().unwrap().unwrap();
    assert_eq!(granted, vec![reason::SubackReason::GranteedQoS1]);
    for size in [0usize, 1, 127, 128, 509, 510, 511, 512, 513, 1023, 1024, 1025, 2500, 16383, 16384, 70000] {
        let payload: Vec<u8> = (0..size).map(|i| (i % 251) as u8).collect();
        let mut body = str16("t/ü".as_bytes());
        body.extend(300u16.to_be_bytes());
        let mut props = vec![];
        props.extend(p_u8(1, 1));
        props.extend(p_u32(2, 99));
        props.extend(p_pair("a", "b"));
        props.extend(p_str(8, b"resp"));
        props.extend(p_str(9, &[0, 255]));
        props.push(11);
        props.extend(vbi(1));
        props.extend(p_str(3, b"text/plain"));
        props.extend(p_u16(35, 5));
        props.extend(p_pair("a", "c"));
        body.extend(vbi(props.len()));
        body.extend(props);
        body.extend(&payload);
        b.feed(&packet(0x3b, &body)); // DUP=1, QoS=1, RETAIN=1
        assert_eq!(b.written(), vec![ack(0x40, 300, None)]);
        let waker = futures::task::noop_waker();
        let mut cx = std::task::Context::from_waker(&waker);
        match st.poll_next_unpin(&mut cx) {
            std::task::Poll::Ready(Some(d)) => {
                assert_eq!((d.dup(), d.retain(), d.qos()), (true, true, QoS::AtLeastOnce));
                assert_eq!(d.topic_name(), "t/ü");
                assert_eq!(d.payload(), &payload[..], "payload of {} bytes", size);
                assert_eq!(d.payload_format_indicator(), Some(true));
                assert_eq!(d.message_expiry_interval(), Some(Duration::from_secs(99)));
                assert_eq!(d.response_topic(), Some("resp"));
                assert_eq!(d.correlation_data(), Some(&[0u8, 255][..]));
                assert_eq!(d.content_type(), Some("text/plain"));
                assert_eq!(d.topic_alias(), Some(5));
                assert_eq!(d.user_properties().iter().collect::<Vec<_>>(), vec![("a", "b"), ("a", "c")]);
            }
            other => panic!("message of {} bytes not delivered: {:?}", size, other.is_ready()),
        }
    }
}

#[test]
fn acknowledgement_contents_reach_the_caller() {
    let mut b = Bench::connected(&[]);
    let mut h = b.handle.clone();
    let p = b.exec.spawn(async move { h.publish(PublishOpts::new().topic_name("t").qos(QoS::AtLeastOnce)).await });
    b.exec.settle();
    // PUBACK id 1, reason 0x97 (quota exceeded), reason string + two user properties
    let mut props = p_str(31, b"slow down");
    props.extend(p_pair("x", "1"));
    props.extend(p_pair("x", "2"));
    let mut body = vec![0, 1, 0x97];
    body.extend(vbi(props.len()));
    body.extend(props);
    b.feed(&packet(0x40, &body));
    match p.borrow_mut().take() {
        Some(Err(poster::error::MqttError::PubackError(e))) => {
            assert_eq!(e.reason(), reason::PubackReason::QuotaExceeded);
            assert_eq!(e.reason_string(), Some("slow down"));
            assert_eq!(e.user_properties().iter().collect::<Vec<_>>(), vec![("x", "1"), ("x", "2")]);
        }
        other => panic!("PubackError expected, got {:?}", other.map(|r| r.map_err(|e| format!("{:?}", e)))),
    }
    // UNSUBACK with two reason codes
    let mut h = b.handle.clone();
    let u = b.exec.spawn(async move { h.unsubscribe(UnsubscribeOpts::new().topic_filter("a").topic_filter("b")).await.map(|r| r.payload().to_vec()).map_err(|e| format!("{:?}", e)) });
    b.exec.settle();
    b.feed(&unsuback(2, &[0x00, 0x11]));
    assert_eq!(*u.borrow(), Some(Ok(vec![reason::UnsubackReason::Success, reason::UnsubackReason::NoSubscriptionExisted])));
    // three-byte PUBREC (reason only) then PUBCOMP short form
    let mut h = b.handle.clone();
    let q = b.exec.spawn(async move { errstr(h.publish(PublishOpts::new().topic_name("t").qos(QoS::ExactlyOnce)).await) });
    b.exec.settle();
    b.written();
    b.feed(&ack(0x50, 3, Some(0x10)));
    assert_eq!(b.written(), vec![ack(0x62, 3, None)]);
    b.feed(&ack(0x70, 3, None));
    assert_eq!(*q.borrow(), Some(Ok(())));
}

#[test]
fn server_disconnect_forms() {
    // reason + properties
    let mut b = Bench::connected(&[]);
    let mut props = p_str(31, b"bye");
    props.extend(p_str(28, b"srv2"));
    props.extend(p_pair("u", "v"));
    let mut body = vec![0x9d];
    body.extend(vbi(props.len()));
    body.extend(props);
    b.feed(&packet(0xe0, &body));
    let r = b.run_result().expect("run() ends");
    let e = r.err().expect("Disconnected");
    assert!(e.contains("Disconnected") && e.contains("ServerMoved") && e.contains("bye") && e.contains("srv2"), "{}", e);
    // remaining length 1: reason only
    let mut b = Bench::connected(&[]);
    b.feed(&disconnect(Some(0x8b)));
    assert!(matches!(b.run_result(), Some(Err(e)) if e.contains("ServerShuttingDown")));
    // remaining length 0: normal disconnection
    let mut b = Bench::connected(&[]);
    b.feed(&disconnect(None));
    assert_eq!(b.run_result(), Some(Ok(())), "DISCONNECT with remaining length 0 means reason 0x00");
}

#[test]
fn auth_challenge_without_authentication_data_is_accepted() {
    // Authentication Data is optional (3.15.2.2.3)
    let ap = p_str(21, b"M");
    let mut body = vec![0x18];
    body.extend(vbi(ap.len()));
    body.extend(ap);
    let r = connect_with(packet(0xf0, &body));
    match r {
        Ok(Either::Right(a)) => {
            assert_eq!(a.authentication_method(), Some("M"));
            assert_eq!(a.authentication_data(), None);
        }
        other => panic!("AUTH with a method and no data is well-formed, got {:?}", other.map(|_| ()).map_err(|e| e)),
    }
}

#[test]
fn user_property_lookups_agree_with_the_pairs_in_the_packet() {
    // keys that differ only in case, one that is a prefix of another, repeated keys, empty key/value, multi-byte UTF-8
    let pairs: Vec<(&str, &str)> = vec![("Key", "a"), ("key", "b"), ("ke", "c"), ("key", "d"), ("", "e"), ("k\u{e9}y", "\u{20ac}"), ("KEY", "")];
    let mut props = vec![];
    for (k, v) in pairs.iter() {
        props.extend(p_pair(k, v));
    }
    let r = connect_with(connack(0, &props)).expect("well-formed CONNACK is accepted");
    let rsp = match r { Either::Left(rsp) => rsp, Either::Right(_) => panic!("CONNACK expected") };
    let up = rsp.user_properties();
    assert_eq!(up.len(), pairs.len());
    assert_eq!(up.iter().collect::<Vec<_>>(), pairs);
    assert_eq!(up.keys().collect::<Vec<_>>(), pairs.iter().map(|p| p.0).collect::<Vec<_>>());
    assert_eq!(up.values().collect::<Vec<_>>(), pairs.iter().map(|p| p.1).collect::<Vec<_>>());
    for probe in ["Key", "key", "KEY", "ke", "k", "", "k\u{e9}y", "key ", "absent"] {
        let want: Vec<&str> = pairs.iter().filter(|p| p.0 == probe).map(|p| p.1).collect();
        assert_eq!(up.get(probe).collect::<Vec<_>>(), want, "get({:?})", probe);
        assert_eq!(up.contains_key(probe), !want.is_empty(), "contains_key({:?})", probe);
    }
}
