//! C03: framing is independent of how the byte stream is chunked; no lost wakeups; no early EOF.
use poster_replay::*;

/// feed `stream` split at the given cut positions and return what the client wrote in answer
/// (the acknowledgements identify which packets it observed, in order)
fn run_chunked(stream: &[u8], cuts: &[usize]) -> (Vec<Vec<u8>>, Option<Result<(), String>>) {
    let mut b = Bench::connected(&[]);
    let mut last = 0;
    for &c in cuts.iter().chain(std::iter::once(&stream.len())) {
        if c > last {
            b.feed(&stream[last..c]);
            last = c;
        }
    }
    (b.written(), b.run_result())
}

fn sample_stream() -> (Vec<u8>, Vec<Vec<u8>>) {
    let mut s = vec![];
    // QoS1 PUBLISH with a 200-byte payload: remaining length needs two bytes
    s.extend(publish(1, false, Some(1), "a", &[], &[7u8; 200]));
    s.extend(publish(2, false, Some(2), "bb", &[], b"x"));
    s.extend(ack(0x62, 9, None)); // PUBREL -> PUBCOMP
    s.extend(publish(0, false, None, "c", &[], b""));
    s.extend(publish(1, false, Some(3), "d", &[], &[1u8; 700])); // crosses the 512-byte chunk size
    (s, vec![ack(0x40, 1, None), ack(0x50, 2, None), ack(0x70, 9, None), ack(0x40, 3, None)])
}

#[test]
fn whole_packets_are_the_reference() {
    let (s, expect) = sample_stream();
    let (w, r) = run_chunked(&s, &[]);
    assert_eq!(w, expect);
    assert_eq!(r, None);
}

#[test]
fn single_byte_reads_observe_the_same_packets() {
    let (s, expect) = sample_stream();
    let cuts: Vec<usize> = (1..s.len()).collect();
    let (w, r) = run_chunked(&s, &cuts);
    assert_eq!(r, None, "run() must keep serving");
    assert_eq!(w, expect);
}

#[test]
fn every_single_cut_position_observes_the_same_packets() {
    let (s, expect) = sample_stream();
    for cut in 1..s.len() {
        let (w, r) = run_chunked(&s, &[cut]);
        assert_eq!(r, None, "cut at {}: run() ended", cut);
        assert_eq!(w, expect, "cut at {}", cut);
    }
}

#[test]
fn every_pair_of_cuts_in_the_first_packets_header() {
    let (s, expect) = sample_stream();
    for c1 in 1..6 {
        for c2 in c1 + 1..8 {
            let (w, r) = run_chunked(&s, &[c1, c2]);
            assert_eq!(r, None, "cuts {},{}", c1, c2);
            assert_eq!(w, expect, "cuts {},{}", c1, c2);
        }
    }
}

#[test]
fn every_byte_made_available_is_consumed_without_a_further_event() {
    // one byte first: the client must come back for the rest on its own waker
    let mut b = Bench::connected(&[]);
    let p = publish(1, false, Some(5), "a", &[], b"z");
    b.feed(&p[..1]);
    b.feed(&p[1..]);
    assert_eq!(b.rx.unread(), 0, "bytes left unread in the transport");
    assert_eq!(b.written(), vec![ack(0x40, 5, None)]);
}
