//! C04: no inbound packet order can panic the client.
use poster_replay::*;

#[test]
fn connack_while_running_does_not_panic() {
    let mut b = Bench::connected(&[]);
    b.feed(&connack(0, &[]));
    // either keeps serving or run() returned an error; reaching this line means no panic
    let _ = b.run_result();
}

#[test]
fn auth_while_running_does_not_panic() {
    let mut b = Bench::connected(&[]);
    b.feed(&packet(0xf0, &[]));
    let _ = b.run_result();
}
