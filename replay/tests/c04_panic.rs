//! C04: no inbound packet order can panic the client.
use poster_replay::*;

#[test]
fn connack_while_running_does_not_panic() {
    let mut b = Bench::connected(&[]);
    b.feed(&connack(0, &[]));
    // either keeps serving or run() returned an error; reaching this line means no panic
    let _ = b.run_result();
}

#[test]
fn auth_while_running_does_not_panic() {
    let mut b = Bench::connected(&[]);
    b.feed(&packet(0xf0, &[]));
    let _ = b.run_result();
}

#[test]
fn unexpected_packet_during_connect_is_an_error_not_a_panic() {
    use poster::*;
    let mut exec = Exec::new();
    let rx = ScriptedRx::default();
    let tx = RecordingTx::default();
    let (mut ctx, _handle) = poster::Context::new();
    ctx.set_up((rx.clone(), tx.clone()));
    rx.push(&[0xd0, 0x00]); // PINGRESP instead of CONNACK
    let r = exec.spawn(async move { ctx.connect(ConnectOpts::new()).await.map(|_| ()).map_err(|e| format!("{:?}", e)) });
    exec.settle();
    assert!(matches!(&*r.borrow(), Some(Err(_))), "{:?}", r.borrow());
}

#[test]
fn truncated_two_byte_integer_is_an_error_not_a_panic() {
    // PUBACK whose remaining length says 1: only half of the packet identifier is there
    let mut b = Bench::connected(&[]);
    b.feed(&[0x40, 0x01, 0x05]);
    let r = b.run_result();
    assert!(matches!(&r, Some(Err(_))), "run() must end with an error, got {:?}", r);
}

#[test]
fn five_byte_remaining_length_is_an_error_not_a_panic() {
    let mut b = Bench::connected(&[]);
    b.feed(&[0x30, 0xff, 0xff, 0xff, 0xff, 0x7f, 0x00]);
    let r = b.run_result();
    assert!(matches!(&r, Some(Err(_))), "run() must end with an error, got {:?}", r);
}

#[test]
fn truncated_four_byte_integer_property_is_an_error_not_a_panic() {
    // CONNACK with a Session Expiry Interval property (id 17) carrying only 2 of its 4 bytes
    let mut exec = Exec::new();
    let rx = ScriptedRx::default();
    let tx = RecordingTx::default();
    let (mut ctx, _handle) = poster::Context::new();
    ctx.set_up((rx.clone(), tx.clone()));
    rx.push(&[0x20, 0x06, 0x00, 0x00, 0x03, 17, 0x00, 0x01]);
    let r = exec.spawn(async move { ctx.connect(poster::ConnectOpts::new()).await.map(|_| ()).map_err(|e| format!("{:?}", e)) });
    exec.settle();
    assert!(matches!(&*r.borrow(), Some(Err(_))), "{:?}", r.borrow());
}
