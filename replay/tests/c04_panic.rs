//! C04: no inbound packet order can panic the client.
use poster_replay::*;

#[test]
fn connack_while_running_does_not_panic() {
    let mut b = Bench::connected(&[]);
    b.feed(&connack(0, &[]));
    // either keeps serving or run() returned an error; reaching this line means no panic
    let _ = b.run_result();
}

#[test]
fn auth_while_running_does_not_panic() {
    let mut b = Bench::connected(&[]);
    b.feed(&packet(0xf0, &[]));
    let _ = b.run_result();
}

#[test]
fn unexpected_packet_during_connect_is_an_error_not_a_panic() {
    use poster::*;
    let mut exec = Exec::new();
    let rx = ScriptedRx::default();
    let tx = RecordingTx::default();
    let (mut ctx, _handle) = poster::Context::new();
    ctx.set_up((rx.clone(), tx.clone()));
    rx.push(&[0xd0, 0x00]); // PINGRESP instead of CONNACK
    let r = exec.spawn(async move { ctx.connect(ConnectOpts::new()).await.map(|_| ()).map_err(|e| format!("{:?}", e)) });
    exec.settle();
    assert!(matches!(&*r.borrow(), Some(Err(_))), "{:?}", r.borrow());
}
