//! C05: each operation completes exactly once, with the acknowledgement addressed to it.
use poster::*;
use poster_replay::*;

fn pub_op(b: &Bench, qos: QoS) -> Slot<Result<(), String>> {
    let mut h = b.handle.clone();
    b.exec.spawn(async move { errstr(h.publish(PublishOpts::new().topic_name("t").qos(qos).payload(b"p")).await) })
}
fn ping_op(b: &Bench) -> Slot<Result<(), String>> {
    let mut h = b.handle.clone();
    b.exec.spawn(async move { errstr(h.ping().await) })
}

#[test]
fn acknowledgements_in_reverse_order_complete_their_own_operations() {
    let mut b = Bench::connected(&[]);
    let p1 = pub_op(&b, QoS::AtLeastOnce); // id 1
    b.exec.settle();
    let p2 = pub_op(&b, QoS::AtLeastOnce); // id 2
    b.exec.settle();
    let mut h = b.handle.clone();
    let s3 = b.exec.spawn(async move { h.subscribe(SubscribeOpts::new().subscription("a", SubscriptionOpts::new())).await.map(|r| r.payload().to_vec().len()).map_err(|e| format!("{:?}", e)) }); // id 3
    b.exec.settle();
    let mut h = b.handle.clone();
    let u4 = b.exec.spawn(async move { h.unsubscribe(UnsubscribeOpts::new().topic_filter("a")).await.map(|r| r.payload().len()).map_err(|e| format!("{:?}", e)) }); // id 4
    b.exec.settle();
    assert_eq!(b.written().len(), 4);
    b.feed(&unsuback(4, &[0]));
    assert_eq!(*u4.borrow(), Some(Ok(1)));
    assert!(p1.borrow().is_none() && p2.borrow().is_none() && s3.borrow().is_none());
    b.feed(&suback(3, &[0, 1]));
    assert_eq!(*s3.borrow(), Some(Ok(2)));
    assert!(p1.borrow().is_none() && p2.borrow().is_none());
    // a PUBACK for an unknown identifier and an acknowledgement of the wrong type complete nothing
    b.feed(&ack(0x40, 77, None));
    b.feed(&ack(0x70, 1, None));
    assert!(p1.borrow().is_none() && p2.borrow().is_none());
    b.feed(&ack(0x40, 2, Some(0x10)));
    assert_eq!(*p2.borrow(), Some(Ok(())));
    assert!(p1.borrow().is_none());
    b.feed(&ack(0x40, 1, Some(0x87)));
    assert!(matches!(&*p1.borrow(), Some(Err(e)) if e.contains("PubackError")), "{:?}", p1.borrow());
    assert_eq!(b.run_result(), None);
}

#[test]
fn pings_complete_one_per_pingresp_in_issue_order_across_other_traffic() {
    let mut b = Bench::connected(&[]);
    let p = pub_op(&b, QoS::AtLeastOnce);
    b.exec.settle();
    let g1 = ping_op(&b);
    b.exec.settle();
    let g2 = ping_op(&b);
    b.exec.settle();
    let g3 = ping_op(&b);
    b.exec.settle();
    b.feed(&ack(0x40, 1, None));
    assert_eq!(*p.borrow(), Some(Ok(())));
    b.feed(&[0xd0, 0x00]);
    assert_eq!((g1.borrow().clone(), g2.borrow().clone(), g3.borrow().clone()), (Some(Ok(())), None, None));
    b.feed(&[0xd0, 0x00]);
    assert_eq!((g2.borrow().clone(), g3.borrow().clone()), (Some(Ok(())), None));
    b.feed(&[0xd0, 0x00]);
    assert_eq!(*g3.borrow(), Some(Ok(())));
}

#[test]
fn qos2_phases_are_keyed_by_pubrec_then_pubcomp() {
    let mut b = Bench::connected(&[]);
    let p = pub_op(&b, QoS::ExactlyOnce);
    b.exec.settle();
    assert_eq!(b.written().len(), 1);
    b.feed(&ack(0x70, 1, None)); // PUBCOMP before PUBREC: not ours yet
    assert!(p.borrow().is_none());
    b.feed(&ack(0x50, 1, None));
    assert_eq!(b.written(), vec![ack(0x62, 1, None)]);
    assert!(p.borrow().is_none());
    b.feed(&ack(0x70, 1, None));
    assert_eq!(*p.borrow(), Some(Ok(())));
}
