//! C06: outbound QoS 1/2 publishes follow the MQTT handshake and report its outcome.
use poster::*;
use poster_replay::*;

fn pub_op(b: &Bench, qos: QoS, retain: bool) -> Slot<Result<(), String>> {
    let mut h = b.handle.clone();
    b.exec.spawn(async move { errstr(h.publish(PublishOpts::new().topic_name("t/x").qos(qos).retain(retain).payload(b"pay")).await) })
}

#[test]
fn publish_bytes_and_outcomes_for_every_qos() {
    let mut b = Bench::connected(&[]);
    let p0 = pub_op(&b, QoS::AtMostOnce, true);
    b.exec.settle();
    let w = b.written();
    assert_eq!(w, vec![vec![0x31, 0x09, 0x00, 0x03, b't', b'/', b'x', 0x00, b'p', b'a', b'y']]);
    assert_eq!(*p0.borrow(), Some(Ok(())));

    let p1 = pub_op(&b, QoS::AtLeastOnce, false);
    b.exec.settle();
    let w = b.written();
    assert_eq!(w, vec![vec![0x32, 0x0b, 0x00, 0x03, b't', b'/', b'x', 0x00, 0x01, 0x00, b'p', b'a', b'y']], "DUP=0, QoS=1, id 1");
    assert!(p1.borrow().is_none());
    b.feed(&ack(0x40, 1, Some(0x10)));
    assert_eq!(*p1.borrow(), Some(Ok(())), "every reason below 0x80 is success");

    let p2 = pub_op(&b, QoS::ExactlyOnce, false);
    b.exec.settle();
    let w = b.written();
    assert_eq!(w[0][0], 0x34);
    b.feed(&ack(0x50, 2, Some(0x80)));
    assert!(matches!(&*p2.borrow(), Some(Err(e)) if e.contains("PubrecError")), "{:?}", p2.borrow());
    b.exec.settle();
    assert_eq!(b.written().len(), 0, "no PUBREL after a failing PUBREC");

    let p3 = pub_op(&b, QoS::ExactlyOnce, false);
    b.exec.settle();
    b.written();
    b.feed(&ack(0x50, 3, Some(0x10)));
    assert_eq!(b.written(), vec![ack(0x62, 3, None)], "exactly one PUBREL with the same identifier");
    b.feed(&ack(0x70, 3, Some(0x92)));
    assert!(matches!(&*p3.borrow(), Some(Err(e)) if e.contains("PubcompError")), "{:?}", p3.borrow());
}
