//! C07: inbound messages reach exactly their subscription's stream, in order, intact.
use futures::StreamExt;
use poster::*;
use poster_replay::*;

type St = std::pin::Pin<Box<dyn futures::Stream<Item = PublishData>>>;

fn subscribe(b: &mut Bench, filter: &'static str, id: u16) -> St {
    let mut h = b.handle.clone();
    let s = b.exec.spawn(async move { h.subscribe(SubscribeOpts::new().subscription(filter, SubscriptionOpts::new())).await.map(|r| Box::pin(r.stream()) as St).map_err(|e| format!("{:?}", e)) });
    b.exec.settle();
    b.written();
    b.feed(&suback(id, &[0]));
    let r = s.borrow_mut().take().expect("suback completes subscribe");
    r.expect("subscribe ok")
}

fn drain(b: &mut Bench, s: &mut St) -> Vec<(String, Vec<u8>)> {
    let mut out = vec![];
    let waker = futures::task::noop_waker();
    let mut cx = std::task::Context::from_waker(&waker);
    b.exec.settle();
    while let std::task::Poll::Ready(Some(d)) = s.poll_next_unpin(&mut cx) {
        out.push((d.topic_name().to_string(), d.payload().to_vec()));
    }
    out
}

#[test]
fn messages_go_to_their_own_stream_only_and_survive_other_streams_being_dropped() {
    let mut b = Bench::connected(&[]);
    let sa = subscribe(&mut b, "a", 1); // subscription identifier 1
    let mut sb = subscribe(&mut b, "b", 2); // 2
    let mut sc = subscribe(&mut b, "c", 3); // 3
    b.feed(&publish(0, false, None, "b", &[2], b"b1"));
    b.feed(&publish(1, false, Some(9), "c", &[3], b"c1"));
    b.feed(&publish(0, false, None, "zzz", &[], b"none"));
    b.feed(&publish(0, false, None, "zzz", &[42], b"unknown"));
    assert_eq!(drain(&mut b, &mut sb), vec![("b".to_string(), b"b1".to_vec())]);
    assert_eq!(drain(&mut b, &mut sc), vec![("c".to_string(), b"c1".to_vec())]);
    drop(sa);
    b.feed(&publish(0, false, None, "a", &[1], b"a-dead"));
    b.feed(&publish(0, false, None, "a", &[1], b"a-dead2"));
    b.feed(&publish(0, false, None, "b", &[2], b"b2"));
    b.feed(&publish(0, false, None, "c", &[3], b"c2"));
    b.feed(&publish(0, false, None, "b", &[2], b"b3"));
    assert_eq!(drain(&mut b, &mut sb), vec![("b".to_string(), b"b2".to_vec()), ("b".to_string(), b"b3".to_vec())]);
    assert_eq!(drain(&mut b, &mut sc), vec![("c".to_string(), b"c2".to_vec())]);
    // unsubscribe does not end or disturb streams
    let mut h = b.handle.clone();
    let u = b.exec.spawn(async move { h.unsubscribe(UnsubscribeOpts::new().topic_filter("b")).await.map(|_| ()).map_err(|e| format!("{:?}", e)) });
    b.exec.settle();
    b.feed(&unsuback(4, &[0]));
    assert_eq!(*u.borrow(), Some(Ok(())));
    b.feed(&publish(0, false, None, "b", &[2], b"b4"));
    assert_eq!(drain(&mut b, &mut sb), vec![("b".to_string(), b"b4".to_vec())]);
    assert_eq!(b.run_result(), None);
}

#[test]
fn message_arriving_between_subscribe_and_suback_is_kept_for_the_stream() {
    let mut b = Bench::connected(&[]);
    let mut h = b.handle.clone();
    let s = b.exec.spawn(async move { h.subscribe(SubscribeOpts::new().subscription("a", SubscriptionOpts::new())).await.map(|r| Box::pin(r.stream()) as St).map_err(|e| format!("{:?}", e)) });
    b.exec.settle();
    b.feed(&publish(0, false, None, "a", &[1], b"early"));
    b.feed(&suback(1, &[0]));
    let mut st = s.borrow_mut().take().unwrap().unwrap();
    assert_eq!(drain(&mut b, &mut st), vec![("a".to_string(), b"early".to_vec())]);
}

#[test]
fn message_matching_two_subscriptions_reaches_both_streams() {
    // MQTT 5.0 §3.3.2.3.8 / §3.3.4: one PUBLISH for overlapping subscriptions carries the
    // Subscription Identifier of every matching subscription.
    let mut b = Bench::connected(&[]);
    let mut sa = subscribe(&mut b, "a/#", 1);
    let mut sb = subscribe(&mut b, "a/+", 2);
    let mut sc = subscribe(&mut b, "c", 3);
    b.feed(&publish(0, false, None, "a/x", &[1, 2], b"both"));
    b.feed(&publish(1, false, Some(5), "a/y", &[2, 1], b"both-q1"));
    assert_eq!(drain(&mut b, &mut sa), vec![("a/x".to_string(), b"both".to_vec()), ("a/y".to_string(), b"both-q1".to_vec())]);
    assert_eq!(drain(&mut b, &mut sb), vec![("a/x".to_string(), b"both".to_vec()), ("a/y".to_string(), b"both-q1".to_vec())]);
    assert_eq!(drain(&mut b, &mut sc), vec![]);
    // exactly one acknowledgement for the QoS 1 message
    let acks: Vec<_> = b.written().into_iter().filter(|f| f[0] >> 4 == 4).collect();
    assert_eq!(acks.len(), 1);
    assert_eq!(b.run_result(), None);
}

#[test]
fn one_message_for_two_dropped_streams_leaves_the_other_streams_registered() {
    let mut b = Bench::connected(&[]);
    let sa = subscribe(&mut b, "x/#", 1);
    let sb = subscribe(&mut b, "x/+", 2);
    let mut sc = subscribe(&mut b, "c", 3);
    let mut sd = subscribe(&mut b, "d", 4);
    drop(sa);
    drop(sb);
    b.feed(&publish(0, false, None, "x/1", &[1, 2], b"nobody")); // both addressees are gone
    b.feed(&publish(0, false, None, "c", &[3], b"c1"));
    b.feed(&publish(0, false, None, "d", &[4], b"d1"));
    b.feed(&publish(0, false, None, "x/1", &[2, 1], b"nobody2"));
    b.feed(&publish(0, false, None, "c", &[3], b"c2"));
    assert_eq!(drain(&mut b, &mut sc), vec![("c".to_string(), b"c1".to_vec()), ("c".to_string(), b"c2".to_vec())]);
    assert_eq!(drain(&mut b, &mut sd), vec![("d".to_string(), b"d1".to_vec())]);
    assert_eq!(b.run_result(), None);
}
