//! C08: every inbound QoS>0 PUBLISH / PUBREL is acknowledged exactly once with its id.
use poster_replay::*;

#[test]
fn qos1_publish_without_subscription_identifier_is_acked() {
    let mut b = Bench::connected(&[]);
    b.feed(&publish(1, false, Some(7), "a/b", &[], b"hello"));
    assert_eq!(b.written(), vec![ack(0x40, 7, None)], "exactly one PUBACK(7) expected");
}

#[test]
fn qos2_publish_without_subscription_identifier_is_acked() {
    let mut b = Bench::connected(&[]);
    b.feed(&publish(2, false, Some(9), "a/b", &[], b"hello"));
    assert_eq!(b.written(), vec![ack(0x50, 9, None)], "exactly one PUBREC(9) expected");
}

#[test]
fn qos1_publish_with_unknown_subscription_identifier_is_acked() {
    let mut b = Bench::connected(&[]);
    b.feed(&publish(1, false, Some(3), "a/b", &[55], b""));
    assert_eq!(b.written(), vec![ack(0x40, 3, None)]);
}

#[test]
fn pubrel_is_answered_with_pubcomp_and_qos0_with_nothing() {
    let mut b = Bench::connected(&[]);
    b.feed(&publish(0, false, None, "a/b", &[], b"x"));
    assert_eq!(b.written(), Vec::<Vec<u8>>::new());
    b.feed(&ack(0x62, 300, None));
    assert_eq!(b.written(), vec![ack(0x70, 300, None)]);
}
