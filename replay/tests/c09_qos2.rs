//! C09: an inbound QoS 2 message is delivered to the application exactly once.
use futures::StreamExt;
use poster::*;
use poster_replay::*;

type St = std::pin::Pin<Box<dyn futures::Stream<Item = PublishData>>>;

fn drain(b: &mut Bench, s: &mut St) -> Vec<Vec<u8>> {
    let mut out = vec![];
    let waker = futures::task::noop_waker();
    let mut cx = std::task::Context::from_waker(&waker);
    b.exec.settle();
    while let std::task::Poll::Ready(Some(d)) = s.poll_next_unpin(&mut cx) {
        out.push(d.payload().to_vec());
    }
    out
}

#[test]
fn redelivered_qos2_publish_is_acknowledged_again_but_yielded_once() {
    let mut b = Bench::connected(&[]);
    let mut h = b.handle.clone();
    let s = b.exec.spawn(async move { h.subscribe(SubscribeOpts::new().subscription("a", SubscriptionOpts::new())).await.map(|r| Box::pin(r.stream()) as St).map_err(|e| format!("{:?}", e)) });
    b.exec.settle();
    b.written();
    b.feed(&suback(1, &[2]));
    let mut st = s.borrow_mut().take().unwrap().unwrap();

    b.feed(&publish(2, false, Some(7), "a", &[1], b"m1"));
    assert_eq!(b.written(), vec![ack(0x50, 7, None)]);
    b.feed(&publish(2, true, Some(7), "a", &[1], b"m1")); // broker re-sends before PUBREL
    assert_eq!(b.written(), vec![ack(0x50, 7, None)], "PUBREC is sent again");
    b.feed(&publish(2, false, Some(8), "a", &[1], b"m2")); // another identifier is another message
    b.written();
    assert_eq!(drain(&mut b, &mut st), vec![b"m1".to_vec(), b"m2".to_vec()], "each distinct message exactly once");
    b.feed(&ack(0x62, 7, None)); // PUBREL 7
    assert_eq!(b.written(), vec![ack(0x70, 7, None)]);
    b.feed(&publish(2, false, Some(7), "a", &[1], b"m3")); // identifier reused after release: a new message
    assert_eq!(b.written(), vec![ack(0x50, 7, None)]);
    assert_eq!(drain(&mut b, &mut st), vec![b"m3".to_vec()]);
    // QoS 1 is at-least-once: a repeated identifier is delivered again
    b.feed(&publish(1, false, Some(9), "a", &[1], b"q1"));
    b.feed(&publish(1, true, Some(9), "a", &[1], b"q1"));
    assert_eq!(drain(&mut b, &mut st).len(), 2);
}
