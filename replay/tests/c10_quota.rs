//! C10: Receive Maximum is never exceeded; the quota neither leaks nor overflows.
use poster::*;
use poster_replay::*;

fn publish_fut(b: &Bench, qos: QoS) -> Slot<Result<(), String>> {
    let mut h = b.handle.clone();
    b.exec.spawn(async move { errstr(h.publish(PublishOpts::new().topic_name("t").qos(qos).payload(b"p")).await) })
}

#[test]
fn failing_pubrec_frees_its_slot() {
    // Receive Maximum = 1
    let mut b = Bench::connected(&[33, 0, 1]);
    let p1 = publish_fut(&b, QoS::ExactlyOnce);
    b.exec.settle();
    assert_eq!(b.written().len(), 1);
    b.feed(&ack(0x50, 1, Some(0x97))); // PUBREC quota exceeded: the exchange is over
    assert!(matches!(&*p1.borrow(), Some(Err(e)) if e.contains("PubrecError")), "{:?}", p1.borrow());
    let p2 = publish_fut(&b, QoS::AtLeastOnce);
    b.exec.settle();
    assert_eq!(b.written().len(), 1, "a further publish must be accepted after the failed one completed: {:?}", p2.borrow());
}

#[test]
fn quota_exhausted_refuses_without_writing_and_puback_frees() {
    let mut b = Bench::connected(&[33, 0, 2]);
    let _p1 = publish_fut(&b, QoS::AtLeastOnce);
    let _p2 = publish_fut(&b, QoS::AtLeastOnce);
    let p3 = publish_fut(&b, QoS::AtLeastOnce);
    b.exec.settle();
    assert_eq!(b.written().len(), 2);
    assert!(matches!(&*p3.borrow(), Some(Err(e)) if e.contains("QuotaExceeded")), "{:?}", p3.borrow());
    b.feed(&ack(0x40, 1, None));
    let _p4 = publish_fut(&b, QoS::AtLeastOnce);
    b.exec.settle();
    assert_eq!(b.written().len(), 1);
    // QoS 0 is never limited
    let p5 = publish_fut(&b, QoS::AtMostOnce);
    b.exec.settle();
    assert_eq!(*p5.borrow(), Some(Ok(())));
}
