//! C11: packet ids are non-zero and unique among outstanding operations, for any history.
use poster::*;
use poster_replay::*;

#[test]
fn more_than_65535_publishes_never_use_identifier_zero_and_never_panic() {
    let mut b = Bench::connected(&[]);
    for i in 0..65_600u32 {
        let mut h = b.handle.clone();
        let p = b.exec.spawn(async move { errstr(h.publish(PublishOpts::new().topic_name("t").qos(QoS::AtLeastOnce).payload(b"p")).await) });
        b.exec.settle();
        let w = b.written();
        assert_eq!(w.len(), 1, "publish #{} must reach the wire", i);
        // PUBLISH: hdr, remlen, topic len(2) + "t", packet id (2)
        let id = u16::from_be_bytes([w[0][5], w[0][6]]);
        assert_ne!(id, 0, "publish #{} used packet identifier 0", i);
        b.feed(&ack(0x40, id, None));
        assert_eq!(*p.borrow(), Some(Ok(())), "publish #{}", i);
    }
}

#[test]
fn identifiers_of_outstanding_operations_differ_across_clones_and_kinds() {
    let mut b = Bench::connected(&[]);
    let mut ids = vec![];
    let mut h1 = b.handle.clone();
    let mut h2 = b.handle.clone();
    let mut h3 = b.handle.clone();
    let _a = b.exec.spawn(async move { errstr(h1.publish(PublishOpts::new().topic_name("t").qos(QoS::ExactlyOnce).payload(b"p")).await) });
    let _b = b.exec.spawn(async move { h2.subscribe(SubscribeOpts::new().subscription("a", SubscriptionOpts::new())).await.map(|_| ()).map_err(|e| format!("{:?}", e)) });
    let _c = b.exec.spawn(async move { h3.unsubscribe(UnsubscribeOpts::new().topic_filter("a")).await.map(|_| ()).map_err(|e| format!("{:?}", e)) });
    b.exec.settle();
    for f in b.written() {
        let id = match f[0] >> 4 {
            3 => u16::from_be_bytes([f[5], f[6]]),
            8 | 10 => u16::from_be_bytes([f[2], f[3]]),
            _ => panic!("unexpected {:02x?}", f),
        };
        assert_ne!(id, 0);
        assert!(!ids.contains(&id), "identifier {} used twice among outstanding operations", id);
        ids.push(id);
    }
    assert_eq!(ids.len(), 3);
}

fn id_of(f: &[u8]) -> u16 {
    match f[0] >> 4 {
        3 => {
            let mut pos = 1;
            while f[pos] & 0x80 != 0 {
                pos += 1;
            }
            pos += 1;
            let tl = u16::from_be_bytes([f[pos], f[pos + 1]]) as usize;
            u16::from_be_bytes([f[pos + 2 + tl], f[pos + 3 + tl]])
        }
        8 | 10 => u16::from_be_bytes([f[2], f[3]]),
        _ => panic!("unexpected {:02x?}", f),
    }
}

#[test]
fn every_new_identifier_differs_from_all_outstanding_ones_in_mixed_histories() {
    // operations of all kinds, never acknowledged: every identifier put on the wire must be new; several orders, so that
    // identifiers drawn from a wrong counter (which may coincide with the right one for a while) are exposed
    for order in [[0usize, 0, 1, 2, 0, 2, 1, 0], [1, 1, 2, 0, 0, 2, 2, 1], [2, 0, 0, 0, 2, 1, 2, 0], [0, 2, 2, 2, 1, 0, 1, 2]] {
        let mut b = Bench::connected(&[]);
        let mut outstanding: Vec<u16> = vec![];
        let mut keep = vec![];
        for (step, kind) in order.iter().enumerate() {
            let mut h = b.handle.clone();
            match kind {
                0 => keep.push(b.exec.spawn(async move { errstr(h.publish(PublishOpts::new().topic_name("t").qos(QoS::AtLeastOnce).payload(b"p")).await) })),
                1 => keep.push(b.exec.spawn(async move { h.subscribe(SubscribeOpts::new().subscription("a", SubscriptionOpts::new())).await.map(|_| ()).map_err(|e| format!("{:?}", e)) })),
                _ => keep.push(b.exec.spawn(async move { h.unsubscribe(UnsubscribeOpts::new().topic_filter("a")).await.map(|_| ()).map_err(|e| format!("{:?}", e)) })),
            }
            b.exec.settle();
            let w = b.written();
            assert_eq!(w.len(), 1, "order {:?} step {}", order, step);
            let id = id_of(&w[0]);
            assert_ne!(id, 0);
            assert!(!outstanding.contains(&id), "order {:?} step {}: identifier {} is still outstanding ({:?})", order, step, id, outstanding);
            outstanding.push(id);
        }
    }
}
