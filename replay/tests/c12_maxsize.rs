//! C12: the server's Maximum Packet Size is honoured exactly.
use poster::*;
use poster_replay::*;

fn mps(n: u32) -> Vec<u8> {
    let mut v = vec![39u8];
    v.extend(n.to_be_bytes());
    v
}

#[test]
fn exactly_at_the_limit_is_written_one_byte_more_is_refused_cleanly() {
    // QoS1 PUBLISH topic "t", payload of k bytes: 2 + (2+1) + 2 + 1 + k bytes
    for k in [0usize, 1, 5] {
        let len = 8 + k;
        // limit == len: written
        let mut b = Bench::connected(&mps(len as u32));
        let mut h = b.handle.clone();
        let pl = vec![7u8; k];
        let p = b.exec.spawn(async move { errstr(h.publish(PublishOpts::new().topic_name("t").qos(QoS::AtLeastOnce).payload(&pl)).await) });
        b.exec.settle();
        let w = b.written();
        assert_eq!(w.len(), 1);
        assert_eq!(w[0].len(), len);
        assert!(p.borrow().is_none());
        // limit == len - 1: refused, nothing written, no quota slot or pending entry left behind
        let mut props = mps(len as u32 - 1);
        props.extend([33, 0, 1]); // Receive Maximum 1
        let mut b = Bench::connected(&props);
        let mut h = b.handle.clone();
        let pl = vec![7u8; k];
        let p = b.exec.spawn(async move { errstr(h.publish(PublishOpts::new().topic_name("t").qos(QoS::AtLeastOnce).payload(&pl)).await) });
        b.exec.settle();
        assert_eq!(b.written().len(), 0);
        assert!(matches!(&*p.borrow(), Some(Err(e)) if e.contains("MaximumPacketSizeExceeded")), "{:?}", p.borrow());
        // the single quota slot is still free: a fitting publish goes out
        let mut h = b.handle.clone();
        let _p2 = b.exec.spawn(async move { errstr(h.publish(PublishOpts::new().topic_name("").qos(QoS::AtLeastOnce)).await) });
        b.exec.settle();
        assert_eq!(b.written().len(), 1, "quota slot must not have been taken by the refused publish");
        // a late PUBACK carrying the refused publish's identifier completes nothing and disturbs nothing
        b.feed(&ack(0x40, 1, None));
        assert_eq!(b.run_result(), None);
    }
}

#[test]
fn oversize_subscribe_registers_no_stream_and_ping_is_checked_too() {
    let mut b = Bench::connected(&mps(1));
    let mut h = b.handle.clone();
    let s = b.exec.spawn(async move { h.subscribe(SubscribeOpts::new().subscription("a", SubscriptionOpts::new())).await.map(|_| ()).map_err(|e| format!("{:?}", e)) });
    let mut h2 = b.handle.clone();
    let g = b.exec.spawn(async move { errstr(h2.ping().await) });
    b.exec.settle();
    assert_eq!(b.written().len(), 0);
    assert!(matches!(&*s.borrow(), Some(Err(e)) if e.contains("MaximumPacketSizeExceeded")));
    assert!(matches!(&*g.borrow(), Some(Err(e)) if e.contains("MaximumPacketSizeExceeded")));
    assert_eq!(b.run_result(), None);
}

#[test]
fn a_later_connack_without_maximum_packet_size_lifts_the_limit_of_the_previous_connection() {
    // MQTT 5.0 3.2.2.3.6: "If the Maximum Packet Size is not present, there is no limit on the packet size".
    // First connection: the server announces 20 bytes; second connection of the SAME context: no limit announced.
    let mut exec = Exec::new();
    let (rx1, tx1) = (ScriptedRx::default(), RecordingTx::default());
    let (rx2, tx2) = (ScriptedRx::default(), RecordingTx::default());
    let (mut ctx, handle) = poster::Context::new();
    let mut props = vec![39u8];
    props.extend(20u32.to_be_bytes());
    rx1.push(&connack(0, &props));
    rx2.push(&connack(0, &[]));
    let (r1, t1, r2, t2) = (rx1.clone(), tx1.clone(), rx2.clone(), tx2.clone());
    let run = exec.spawn(async move {
        ctx.set_up((r1, t1));
        ctx.connect(poster::ConnectOpts::new()).await.map_err(|e| format!("connect 1: {:?}", e))?;
        ctx.set_up((r2, t2));
        ctx.connect(poster::ConnectOpts::new()).await.map_err(|e| format!("connect 2: {:?}", e))?;
        errstr(ctx.run().await)
    });
    exec.settle();
    tx2.take(); // CONNECT
    let mut h = handle.clone();
    let payload = [7u8; 64];
    let p = exec.spawn(async move { errstr(h.publish(PublishOpts::new().topic_name("t").payload(&payload)).await) });
    exec.settle();
    assert_eq!(*p.borrow(), Some(Ok(())), "no limit was announced on this connection");
    let w = frames(&tx2.take());
    assert_eq!(w.len(), 1);
    assert_eq!(w[0].len(), 2 + 3 + 1 + 64);
    assert_eq!(*run.borrow(), None);
}
