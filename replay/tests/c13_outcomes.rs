//! C13: connect() and run() end with the documented outcome, and only then.
use poster::*;
use poster_replay::*;

#[test]
fn run_returns_ok_after_user_disconnect_and_writes_nothing_after_it() {
    let mut b = Bench::connected(&[]);
    let mut h = b.handle.clone();
    let d = b.exec.spawn(async move { errstr(h.disconnect(DisconnectOpts::new()).await) });
    // a ping queued right behind the DISCONNECT must never reach the wire
    let mut h2 = b.handle.clone();
    let _p = b.exec.spawn(async move { errstr(h2.ping().await) });
    b.exec.settle();
    let w = b.written();
    assert_eq!(w.len(), 1, "only the DISCONNECT may be written, got {:02x?}", w);
    assert_eq!(w[0][0], 0xe0);
    assert_eq!(*d.borrow(), Some(Ok(())));
    assert_eq!(b.run_result(), Some(Ok(())), "run() must return Ok(()) once the user's DISCONNECT is written");
}

#[test]
fn run_returns_ok_on_server_disconnect_with_reason_zero() {
    let mut b = Bench::connected(&[]);
    b.feed(&disconnect(Some(0)));
    assert_eq!(b.run_result(), Some(Ok(())));
}

#[test]
fn run_returns_disconnected_for_other_reasons() {
    let mut b = Bench::connected(&[]);
    b.feed(&disconnect(Some(0x8b)));
    let r = b.run_result().expect("run() ended");
    assert!(matches!(&r, Err(e) if e.contains("Disconnected")), "{:?}", r);
}

#[test]
fn run_returns_socket_closed_on_eof_and_handle_closed_when_handles_dropped() {
    let mut b = Bench::connected(&[]);
    b.rx.push_chunk(Chunk::Eof);
    b.exec.settle();
    let r = b.run_result().expect("run() ended");
    assert!(matches!(&r, Err(e) if e.contains("SocketClosed")), "{:?}", r);

    let b2 = Bench::connected(&[]);
    let Bench { mut exec, handle, run, .. } = b2;
    drop(handle);
    exec.settle();
    let r = run.borrow().clone().expect("run() ended");
    assert!(matches!(&r, Err(e) if e.contains("HandleClosed")), "{:?}", r);
}

#[test]
fn oversize_disconnect_is_refused_and_run_keeps_serving() {
    // Maximum Packet Size = 3: the 4-byte DISCONNECT does not fit
    let mut b = Bench::connected(&[39, 0, 0, 0, 3]);
    let mut h = b.handle.clone();
    let d = b.exec.spawn(async move { errstr(h.disconnect(DisconnectOpts::new()).await) });
    b.exec.settle();
    assert!(matches!(&*d.borrow(), Some(Err(e)) if e.contains("MaximumPacketSizeExceeded")), "{:?}", d.borrow());
    assert_eq!(b.written().len(), 0);
    assert_eq!(b.run_result(), None);
}
