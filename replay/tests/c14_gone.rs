//! C14: no operation or stream hangs once the context is gone.
use futures::StreamExt;
use poster::*;
use poster_replay::*;

#[test]
fn pending_and_later_operations_fail_with_context_exited_and_streams_drain_then_end() {
    let mut b = Bench::connected(&[]);
    let mut h = b.handle.clone();
    let s = b.exec.spawn(async move { h.subscribe(SubscribeOpts::new().subscription("a", SubscriptionOpts::new())).await.map(|r| Box::pin(r.stream())).map_err(|e| format!("{:?}", e)) });
    b.exec.settle();
    b.feed(&suback(1, &[0]));
    let mut st = s.borrow_mut().take().unwrap().unwrap();
    b.feed(&publish(0, false, None, "a", &[1], b"m1"));
    let mut h = b.handle.clone();
    let p1 = b.exec.spawn(async move { errstr(h.publish(PublishOpts::new().topic_name("t").qos(QoS::AtLeastOnce)).await) });
    let mut h = b.handle.clone();
    let p2 = b.exec.spawn(async move { errstr(h.publish(PublishOpts::new().topic_name("t").qos(QoS::ExactlyOnce)).await) });
    b.exec.settle();
    b.feed(&ack(0x50, 3, None)); // QoS2 now between its two phases
    // the transport ends; run() returns and the task (which owns the Context) finishes -> Context dropped
    b.rx.push_chunk(Chunk::Eof);
    b.exec.settle();
    assert!(matches!(b.run_result(), Some(Err(e)) if e.contains("SocketClosed")));
    assert!(matches!(&*p1.borrow(), Some(Err(e)) if e.contains("ContextExited")), "{:?}", p1.borrow());
    assert!(matches!(&*p2.borrow(), Some(Err(e)) if e.contains("ContextExited")), "{:?}", p2.borrow());
    let mut h = b.handle.clone();
    let late = b.exec.spawn(async move { errstr(h.ping().await) });
    b.exec.settle();
    assert!(matches!(&*late.borrow(), Some(Err(e)) if e.contains("ContextExited")), "{:?}", late.borrow());
    let waker = futures::task::noop_waker();
    let mut cx = std::task::Context::from_waker(&waker);
    match st.poll_next_unpin(&mut cx) {
        std::task::Poll::Ready(Some(d)) => assert_eq!(d.payload(), b"m1"),
        _ => panic!("buffered message must still be yielded"),
    }
    assert!(matches!(st.poll_next_unpin(&mut cx), std::task::Poll::Ready(None)), "then the stream ends");
}

#[test]
fn qos2_publish_whose_pubrel_cannot_be_queued_any_more_fails_with_context_exited() {
    // the context processes the PUBREC and ends (end of stream) BEFORE the publishing task is polled again: the task then
    // finds the context gone when it tries to queue its PUBREL and must complete with ContextExited, not stay pending
    let mut b = Bench::connected(&[]);
    let mut h = b.handle.clone();
    let p2 = b.exec.spawn(async move { errstr(h.publish(PublishOpts::new().topic_name("t").qos(QoS::ExactlyOnce)).await) });
    b.exec.settle();
    b.written();
    b.rx.push(&ack(0x50, 1, None));
    b.rx.push_chunk(Chunk::Eof);
    b.exec.settle();
    assert!(matches!(b.run_result(), Some(Err(e)) if e.contains("SocketClosed")), "{:?}", b.run_result());
    assert!(matches!(&*p2.borrow(), Some(Err(e)) if e.contains("ContextExited")), "publish between its phases: {:?}", p2.borrow());
}
