//! C15: a cancelled operation never disturbs the connection.
use poster::*;
use poster_replay::*;

#[test]
fn dropped_qos1_publish_future_then_puback() {
    let mut b = Bench::connected(&[]);
    let mut h = b.handle.clone();
    // start a QoS 1 publish, let the context write it, then drop the future before its PUBACK
    {
        let fut = async move { h.publish(PublishOpts::new().topic_name("t").qos(QoS::AtLeastOnce).payload(b"x")).await };
        let mut fut = Box::pin(fut);
        let waker = futures::task::noop_waker();
        let mut cx = std::task::Context::from_waker(&waker);
        assert!(std::future::Future::poll(fut.as_mut(), &mut cx).is_pending());
        b.exec.settle();
        let w = b.written();
        assert_eq!(w.len(), 1, "PUBLISH written");
        drop(fut);
    }
    b.feed(&ack(0x40, 1, None));
    assert_eq!(b.run_result(), None, "run() must keep serving after the late PUBACK of an abandoned publish, got {:?}", b.run_result());
    // and other operations still work
    let mut h2 = b.handle.clone();
    let ping = b.exec.spawn(async move { errstr(h2.ping().await) });
    b.exec.settle();
    b.feed(&[0xd0, 0x00]);
    assert_eq!(*ping.borrow(), Some(Ok(())));
}

#[test]
fn dropped_qos0_publish_future_before_context_handles_it() {
    let mut b = Bench::connected(&[]);
    let mut h = b.handle.clone();
    {
        let fut = async move { h.publish(PublishOpts::new().topic_name("t").payload(b"x")).await };
        let mut fut = Box::pin(fut);
        let waker = futures::task::noop_waker();
        let mut cx = std::task::Context::from_waker(&waker);
        assert!(std::future::Future::poll(fut.as_mut(), &mut cx).is_pending());
        drop(fut); // message is queued, caller is gone
    }
    b.exec.settle();
    assert_eq!(b.run_result(), None, "run() must keep serving, got {:?}", b.run_result());
}
