//! C16 (bounded stand-in, run-loop level): the executor of the bench polls a task only when its waker fired
//! (futures::executor::LocalPool), so a `Pending` returned without an arranged wakeup shows as lost progress.
use futures::StreamExt;
use poster::*;
use poster_replay::*;

type St = std::pin::Pin<Box<dyn futures::Stream<Item = PublishData>>>;

fn drain(b: &mut Bench, s: &mut St) -> Vec<Vec<u8>> {
    let mut out = vec![];
    let waker = futures::task::noop_waker();
    let mut cx = std::task::Context::from_waker(&waker);
    b.exec.settle();
    while let std::task::Poll::Ready(Some(d)) = s.poll_next_unpin(&mut cx) {
        out.push(d.payload().to_vec());
    }
    out
}

fn subscribed() -> (Bench, St) {
    let mut b = Bench::connected(&[]);
    let mut h = b.handle.clone();
    let s = b.exec.spawn(async move { h.subscribe(SubscribeOpts::new().subscription("a", SubscriptionOpts::new())).await.map(|r| Box::pin(r.stream()) as St).map_err(|e| format!("{:?}", e)) });
    b.exec.settle();
    b.written();
    b.feed(&suback(1, &[0]));
    let st = s.borrow_mut().take().expect("suback completes subscribe").expect("subscribe ok");
    (b, st)
}

#[test]
fn a_burst_of_inbound_packets_is_served_completely_by_a_wake_only_executor() {
    for n in [1usize, 7, 8, 9, 16, 17, 40] {
        // all packets available at once
        let (mut b, mut st) = subscribed();
        let mut all = vec![];
        for i in 0..n {
            all.extend(publish(0, false, None, "a", &[1], &[i as u8]));
        }
        b.rx.push(&all);
        assert_eq!(drain(&mut b, &mut st), (0..n).map(|i| vec![i as u8]).collect::<Vec<_>>(), "burst of {} in one read", n);
        // one packet per read, nothing else happening in between
        let (mut b, mut st) = subscribed();
        let mut got = vec![];
        for i in 0..n {
            b.rx.push(&publish(1, false, Some(i as u16 + 1), "a", &[1], &[i as u8]));
            got.extend(drain(&mut b, &mut st));
        }
        assert_eq!(got, (0..n).map(|i| vec![i as u8]).collect::<Vec<_>>(), "burst of {} in separate reads", n);
        let acks = b.written().into_iter().filter(|f| f[0] >> 4 == 4).count();
        assert_eq!(acks, n, "every QoS 1 message of the burst is acknowledged");
        assert_eq!(b.run_result(), None);
    }
}
