//! C17: resuming a session re-sends exactly the unfinished outbound handshakes.
//! Needs the hook `Context::verif_mark_disconnected` (cfg poster_verif).
#![cfg(poster_verif)]
use poster::*;
use poster_replay::*;
use std::time::Duration;

/// history: QoS1 publish (id 1) unacknowledged; QoS2 publish (id 2) with PUBREC received and PUBREL
/// sent but no PUBCOMP; QoS1 publish (id 3) acknowledged.  Then the transport ends.
fn lose_connection(expiry_secs: u64) -> (Exec, poster::Context<ScriptedRx, RecordingTx>, ContextHandle, Vec<Slot<Result<(), String>>>) {
    let mut exec = Exec::new();
    let rx = ScriptedRx::default();
    let tx = RecordingTx::default();
    let (mut ctx, handle) = poster::Context::new();
    ctx.set_up((rx.clone(), tx.clone()));
    rx.push(&connack(0, &[]));
    let run = exec.spawn(async move {
        ctx.connect(ConnectOpts::new().session_expiry_interval(Duration::from_secs(expiry_secs))).await.map_err(|e| format!("{:?}", e)).unwrap();
        let r = ctx.run().await;
        (ctx, format!("{:?}", r))
    });
    exec.settle();
    let mut ops = vec![];
    for qos in [QoS::AtLeastOnce, QoS::ExactlyOnce, QoS::AtLeastOnce] {
        let mut h = handle.clone();
        ops.push(exec.spawn(async move { errstr(h.publish(PublishOpts::new().topic_name("t").qos(qos).payload(b"p")).await) }));
        exec.settle();
    }
    rx.push(&ack(0x50, 2, None)); // PUBREC 2 -> PUBREL 2
    exec.settle();
    rx.push(&ack(0x40, 3, None)); // PUBACK 3
    exec.settle();
    rx.push_chunk(Chunk::Eof);
    exec.settle();
    let (ctx, res) = run.borrow_mut().take().expect("run() ends on EOF");
    assert!(res.contains("SocketClosed"), "{}", res);
    (exec, ctx, handle, ops)
}

fn resume(secs_ago: u64, expiry_secs: u64) -> Vec<Vec<u8>> {
    let (mut exec, mut ctx, _handle, _ops) = lose_connection(expiry_secs);
    ctx.verif_mark_disconnected(secs_ago);
    let rx = ScriptedRx::default();
    let tx = RecordingTx::default();
    ctx.set_up((rx.clone(), tx.clone()));
    rx.push(&connack(0, &[]));
    let _run = exec.spawn(async move {
        ctx.connect(ConnectOpts::new().session_expiry_interval(Duration::from_secs(expiry_secs))).await.map_err(|e| format!("{:?}", e)).unwrap();
        let r = ctx.run().await;
        (ctx, format!("{:?}", r))
    });
    exec.settle();
    let mut w = frames(&tx.take());
    w.remove(0); // CONNECT
    w
}

#[test]
fn unexpired_session_replays_unfinished_handshakes_only() {
    let w = resume(10, 1000);
    assert_eq!(w.len(), 2, "expected PUBLISH(1, DUP) and PUBREL(2), got {:02x?}", w);
    assert_eq!(w[0][0], 0x30 | 0x08 | 0x02, "first: QoS1 PUBLISH with DUP=1, got {:02x?}", w[0]);
    assert_eq!(w[1], ack(0x62, 2, None), "second: PUBREL(2)");
}

#[test]
fn expired_session_replays_nothing() {
    let w = resume(1000, 10);
    assert_eq!(w.len(), 0, "nothing may be re-sent after the session expired, got {:02x?}", w);
}

#[test]
fn expiry_zero_replays_nothing() {
    let w = resume(0, 0);
    assert_eq!(w.len(), 0, "session expiry 0: nothing may be re-sent, got {:02x?}", w);
}
