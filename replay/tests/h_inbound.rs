//! Model-based replay of random INBOUND histories against the real crate (bounded stand-in for C07, C08, C09; the
//! second line when a change adds code the deductive check cannot read).  The scripted broker sends, in random batches
//! that arrive in one read or are cut at a random byte:
//!   * PUBLISH QoS 0/1/2 carrying zero, one or several subscription identifiers (known, unknown, of a dropped stream),
//!   * re-sent QoS 2 PUBLISHes (DUP=1, same identifier, before their PUBREL),
//!   * PUBREL for unreleased and for unknown identifiers;
//! streams are subscribed, and dropped, along the way, and the client runs complete outbound QoS 2 exchanges of its own whose
//! identifiers the broker deliberately also uses for inbound messages (the two identifier spaces are independent).  A reference model says after every batch exactly which
//! acknowledgements must have been written (one per PUBLISH QoS>0 / PUBREL, right type, right identifier, in order) and which
//! payloads every stream must yield (each message once per stream it is addressed to, in order, intact; a re-sent QoS 2
//! message not again until its PUBREL).
use futures::StreamExt;
use poster::*;
use poster_replay::*;

type St = std::pin::Pin<Box<dyn futures::Stream<Item = PublishData>>>;

struct Rng(u64);
impl Rng {
    fn next(&mut self) -> u64 {
        self.0 ^= self.0 << 13;
        self.0 ^= self.0 >> 7;
        self.0 ^= self.0 << 17;
        self.0
    }
    fn below(&mut self, n: usize) -> usize {
        (self.next() % n as u64) as usize
    }
}

struct Sub {
    sid: u32,
    stream: Option<St>,
    /// payloads the model says are buffered for this stream and not yet drained
    expect: Vec<Vec<u8>>,
}

struct World {
    b: Bench,
    subs: Vec<Sub>,
    /// inbound QoS 2 identifiers received and not yet released, with the message they carried
    unreleased: Vec<(u16, Vec<u8>, Vec<u32>)>,
    next_pkt_id: u16,
    /// the identifier the client's next outbound QoS>0 publish will probably carry (inbound and outbound identifiers are
    /// independent spaces: the broker is free to use the same numbers)
    out_next: u16,
    counter: u32,
    trace: Vec<String>,
}

impl World {
    fn fail(&self, what: String) -> ! {
        panic!("{}\nhistory:\n  {}", what, self.trace.join("\n  "));
    }

    fn subscribe(&mut self) {
        let mut h = self.b.handle.clone();
        let s = self.b.exec.spawn(async move {
            h.subscribe(SubscribeOpts::new().subscription("f", SubscriptionOpts::new())).await.map(|r| Box::pin(r.stream()) as St).map_err(|e| format!("{:?}", e))
        });
        self.b.exec.settle();
        let w = self.b.written();
        if w.len() != 1 || w[0][0] != 0x82 {
            self.fail(format!("subscribe must write one SUBSCRIBE, wrote {:02x?}", w));
        }
        // SUBSCRIBE: 82 len id id props_len 0b <sid vbi> ...
        let f = &w[0];
        let pid = u16::from_be_bytes([f[2], f[3]]);
        if f[5] != 0x0b {
            self.fail(format!("SUBSCRIBE without subscription identifier: {:02x?}", f));
        }
        let mut sid = 0u32;
        let mut shift = 0;
        let mut k = 6;
        loop {
            sid |= ((f[k] & 0x7f) as u32) << shift;
            shift += 7;
            if f[k] & 0x80 == 0 {
                break;
            }
            k += 1;
        }
        self.b.feed(&suback(pid, &[0]));
        let r = s.borrow_mut().take();
        let st = match r {
            Some(Ok(st)) => st,
            other => self.fail(format!("subscribe did not complete with a stream: {:?}", other.map(|r| r.map(|_| ())))),
        };
        if self.subs.iter().any(|x| x.sid == sid) {
            self.fail(format!("subscription identifier {} handed out twice", sid));
        }
        self.trace.push(format!("subscribe -> sid {}", sid));
        self.subs.push(Sub { sid, stream: Some(st), expect: vec![] });
    }

    fn deliver(&mut self, sids: &[u32], payload: &[u8]) {
        // one delivery per identifier the PUBLISH carries, to the stream registered for it (if it still exists)
        for sid in sids {
            if let Some(s) = self.subs.iter_mut().find(|s| s.sid == *sid && s.stream.is_some()) {
                s.expect.push(payload.to_vec());
            }
        }
    }

    fn batch(&mut self, rng: &mut Rng) {
        let n = 1 + rng.below(3);
        let mut bytes = vec![];
        let mut acks: Vec<Vec<u8>> = vec![];
        let mut desc = vec![];
        for _ in 0..n {
            match rng.below(8) {
                0..=4 => {
                    // a new PUBLISH
                    let mut qos = rng.below(3) as u8;
                    if qos == 2 && self.unreleased.len() >= 8 {
                        qos = 1; // keep the broker's window of unreleased identifiers small
                    }
                    let mut sids = vec![];
                    for _ in 0..rng.below(3) {
                        let c = rng.below(self.subs.len() + 1);
                        let sid = if c < self.subs.len() { self.subs[c].sid } else { 77 };
                        if !sids.contains(&sid) {
                            sids.push(sid);
                        }
                    }
                    self.counter += 1;
                    let payload = self.counter.to_be_bytes().to_vec();
                    let id = if qos > 0 {
                        // the broker never reuses an identifier it has not released
                        loop {
                            if rng.below(2) == 0 && !self.unreleased.iter().any(|u| u.0 == self.out_next) {
                                self.next_pkt_id = self.out_next; // collide with the client's own identifier space on purpose
                                break;
                            }
                            self.next_pkt_id = self.next_pkt_id % 40 + 1;
                            if !self.unreleased.iter().any(|u| u.0 == self.next_pkt_id) {
                                break;
                            }
                        }
                        Some(self.next_pkt_id)
                    } else {
                        None
                    };
                    bytes.extend_from_slice(&publish(qos, false, id, "f", &sids, &payload));
                    match qos {
                        1 => acks.push(ack(0x40, id.unwrap(), None)),
                        2 => {
                            acks.push(ack(0x50, id.unwrap(), None));
                            self.unreleased.push((id.unwrap(), payload.clone(), sids.clone()));
                        }
                        _ => {}
                    }
                    self.deliver(&sids.clone(), &payload);
                    desc.push(format!("PUBLISH(q{} id {:?} sids {:?} #{})", qos, id, sids, self.counter));
                }
                5 => {
                    // the broker re-sends a QoS 2 PUBLISH whose PUBREC it has not seen: acknowledged again, NOT delivered again
                    if !self.unreleased.is_empty() {
                        let (id, payload, sids) = self.unreleased[rng.below(self.unreleased.len())].clone();
                        bytes.extend_from_slice(&publish(2, true, Some(id), "f", &sids, &payload));
                        acks.push(ack(0x50, id, None));
                        desc.push(format!("RE-PUBLISH(q2 id {} sids {:?})", id, sids));
                    }
                }
                _ => {
                    // PUBREL of an unreleased identifier (or, rarely, of one the client does not know)
                    let id = if !self.unreleased.is_empty() && rng.below(5) != 0 {
                        let k = rng.below(self.unreleased.len());
                        self.unreleased.remove(k).0
                    } else {
                        let mut id = 100 + rng.below(5) as u16;
                        while self.unreleased.iter().any(|u| u.0 == id) {
                            id += 1;
                        }
                        id
                    };
                    bytes.extend_from_slice(&ack(0x62, id, None));
                    acks.push(ack(0x70, id, None));
                    desc.push(format!("PUBREL(id {})", id));
                }
            }
        }
        if bytes.is_empty() {
            return;
        }
        let cut = rng.below(bytes.len() + 1);
        self.trace.push(format!("broker sends {} cut at {}/{}", desc.join(" + "), cut, bytes.len()));
        if cut == 0 || cut == bytes.len() {
            self.b.feed(&bytes);
        } else {
            self.b.feed(&bytes[..cut]);
            self.b.feed(&bytes[cut..]);
        }
        let w = self.b.written();
        // any standard form of the acknowledgement (short form, or with reason 0 / empty properties) is accepted
        // (C08 fixes type and identifier, not the reason code)
        let norm = |f: &Vec<u8>| -> (u8, u16) { (f[0], u16::from_be_bytes([f[2], f[3]])) };
        let got: Vec<(u8, u16)> = w.iter().map(norm).collect();
        let want: Vec<(u8, u16)> = acks.iter().map(norm).collect();
        if got != want {
            self.fail(format!("acknowledgements written {:02x?}, expected {:02x?}", w, acks));
        }
        if let Some(r) = self.b.run_result() {
            self.fail(format!("run() ended: {:?}", r));
        }
    }

    /// a complete OUTBOUND QoS 2 exchange of the client (PUBLISH, PUBREC, PUBREL, PUBCOMP): must not touch anything inbound
    fn outbound_qos2(&mut self) {
        let mut h = self.b.handle.clone();
        let r = self.b.exec.spawn(async move { errstr(h.publish(PublishOpts::new().topic_name("t").qos(QoS::ExactlyOnce).payload(b"o")).await) });
        self.b.exec.settle();
        let w = self.b.written();
        if w.len() != 1 || w[0][0] != 0x34 {
            self.fail(format!("outbound QoS 2 publish must write one PUBLISH, wrote {:02x?}", w));
        }
        let id = u16::from_be_bytes([w[0][5], w[0][6]]);
        self.trace.push(format!("client publishes QoS 2 with id {} and the exchange completes", id));
        self.b.feed(&ack(0x50, id, None));
        let w = self.b.written();
        if w.len() != 1 || w[0][0] != 0x62 || u16::from_be_bytes([w[0][2], w[0][3]]) != id {
            self.fail(format!("PUBREC must be answered by one PUBREL with id {}, wrote {:02x?}", id, w));
        }
        self.b.feed(&ack(0x70, id, None));
        let w = self.b.written();
        if !w.is_empty() {
            self.fail(format!("PUBCOMP made the client write {:02x?}", w));
        }
        if *r.borrow() != Some(Ok(())) {
            self.fail(format!("outbound QoS 2 publish ended with {:?}", r.borrow()));
        }
        self.out_next = if id == u16::MAX { 1 } else { id + 1 };
    }

    fn drain(&mut self, k: usize) {
        let waker = futures::task::noop_waker();
        let mut cx = std::task::Context::from_waker(&waker);
        self.b.exec.settle();
        let mut out = vec![];
        if let Some(st) = self.subs[k].stream.as_mut() {
            while let std::task::Poll::Ready(Some(d)) = st.poll_next_unpin(&mut cx) {
                if d.topic_name() != "f" {
                    panic!("topic altered");
                }
                out.push(d.payload().to_vec());
            }
            let want = std::mem::take(&mut self.subs[k].expect);
            if out != want {
                let sid = self.subs[k].sid;
                self.fail(format!("stream of subscription {} yields {:?}, expected {:?}", sid, out, want));
            }
        }
    }

    fn history(seed: u64, steps: usize) {
        let mut rng = Rng(seed.wrapping_mul(0x9e3779b97f4a7c15) | 1);
        let b = Bench::connected(&[]);
        let mut w = World { b, subs: vec![], unreleased: vec![], next_pkt_id: 0, out_next: 1, counter: 0, trace: vec![] };
        w.subscribe();
        for _ in 0..steps {
            match rng.below(12) {
                0 if w.subs.len() < 4 => w.subscribe(),
                1 => {
                    let k = rng.below(w.subs.len());
                    w.drain(k);
                }
                2 if rng.below(3) == 0 => {
                    // the application drops a stream (after draining it): later messages for it go nowhere, nothing else is disturbed
                    let k = rng.below(w.subs.len());
                    w.drain(k);
                    if w.subs[k].stream.take().is_some() {
                        w.trace.push(format!("drop stream of sid {}", w.subs[k].sid));
                    }
                }
                3 => w.outbound_qos2(),
                _ => w.batch(&mut rng),
            }
        }
        for k in 0..w.subs.len() {
            w.drain(k);
        }
    }
}

fn scale() -> u64 {
    if std::env::var("VERIF_TIER").map(|t| t == "thorough").unwrap_or(false) {
        10
    } else {
        1
    }
}

#[test]
fn random_inbound_histories_follow_the_reference_model() {
    let base: u64 = std::env::var("VERIF_SEED").ok().and_then(|s| s.parse().ok()).unwrap_or(1);
    for k in 0..1000 * scale() {
        World::history(base * 3_000_017 + k, 40);
    }
}

#[test]
fn long_inbound_histories_follow_the_reference_model() {
    let base: u64 = std::env::var("VERIF_SEED").ok().and_then(|s| s.parse().ok()).unwrap_or(1);
    for k in 0..10 * scale() {
        World::history(base * 9_000_011 + k, 1500);
    }
}
