//! Model-based replay of random operation/acknowledgement histories against the real crate (bounded stand-in; used
//! for C05, C06, C10, C11, C15 when a change introduces code the deductive check cannot read, and as a second opinion
//! when it can).  A deterministic generator produces histories of
//!   * submissions: publish QoS 0/1/2, ping;
//!   * broker batches: 1..3 acknowledgements of DIFFERENT outstanding operations, in any order, delivered in ONE
//!     transport read or cut at a random byte (PUBACK / PUBREC / PUBCOMP with success and failure reasons, PINGRESP);
//!   * cancellations: the future of an outstanding QoS 1 publish or ping is dropped;
//! and a reference model (Receive Maximum R, the set of operations holding a slot, the FIFO of pings, the identifiers in
//! use) says after every step what must have been written and which operation must have completed with which result.
//! Bounds: HISTORIES x STEPS below (multiplied in the thorough tier), R in 1..=3.
use futures::future::{abortable, AbortHandle};
use poster::*;
use poster_replay::*;
use std::{cell::RefCell, collections::VecDeque, rc::Rc};

struct Rng(u64);
impl Rng {
    fn next(&mut self) -> u64 {
        self.0 ^= self.0 << 13;
        self.0 ^= self.0 >> 7;
        self.0 ^= self.0 << 17;
        self.0
    }
    fn below(&mut self, n: usize) -> usize {
        (self.next() % n as u64) as usize
    }
}

#[derive(Clone, Copy, PartialEq, Debug)]
enum Kind {
    Pub0,
    Pub1,
    Pub2,
    Ping,
}

struct Op {
    kind: Kind,
    slot: Slot<Result<(), String>>,
    abort: AbortHandle,
    id: u16,
    /// 0: waiting for the first acknowledgement, 1: PUBREL sent, waiting for PUBCOMP
    phase: u8,
    cancelled: bool,
    /// the exchange is over as far as the broker is concerned
    finished: bool,
    /// what the caller must have been told (None: still pending)
    expect: Option<Result<(), &'static str>>,
}

struct World {
    b: Bench,
    r: usize,
    ops: Vec<Op>,
    /// operations holding a send-quota slot
    holding: Vec<usize>,
    pings: VecDeque<usize>,
    /// handles that have already performed operations (C11: clones of used handles share the identifier space)
    pool: Rc<RefCell<Vec<ContextHandle>>>,
    trace: Vec<String>,
}

fn publish_id(frame: &[u8]) -> u16 {
    // topic "t": fixed header, 1-byte remaining length, 2+1 topic, identifier
    u16::from_be_bytes([frame[5], frame[6]])
}

impl World {
    fn new(r: usize) -> World {
        let b = Bench::connected(&[33, 0, r as u8]);
        World { b, r, ops: vec![], holding: vec![], pings: VecDeque::new(), pool: Rc::new(RefCell::new(vec![])), trace: vec![format!("R={}", r)] }
    }

    fn fail(&self, what: String) -> ! {
        panic!("{}\nhistory:\n  {}", what, self.trace.join("\n  "));
    }

    fn ids_in_use(&self) -> Vec<u16> {
        self.ops.iter().filter(|o| !o.finished && o.id != 0).map(|o| o.id).collect()
    }

    fn check_callers(&self) {
        for (i, o) in self.ops.iter().enumerate() {
            if o.cancelled {
                continue;
            }
            let got = o.slot.borrow().clone();
            match (&o.expect, &got) {
                (None, None) => {}
                (Some(Ok(())), Some(Ok(()))) => {}
                (Some(Err(tag)), Some(Err(e))) if e.contains(tag) => {}
                _ => self.fail(format!("operation #{} ({:?}, id {}): caller should see {:?}, sees {:?}", i, o.kind, o.id, o.expect, got)),
            }
        }
        if let Some(r) = self.b.run_result() {
            self.fail(format!("run() ended: {:?}", r));
        }
    }

    /// `pick` chooses the handle: a fresh clone of the first handle, a clone of a handle that has been used, or a used
    /// handle itself
    fn submit(&mut self, kind: Kind, pick: usize) {
        let mut h = {
            let mut p = self.pool.borrow_mut();
            if p.is_empty() || pick % 3 == 0 {
                self.b.handle.clone()
            } else if pick % 3 == 1 {
                p[(pick / 3) % p.len()].clone()
            } else {
                let i = (pick / 3) % p.len();
                p.swap_remove(i)
            }
        };
        let pool = self.pool.clone();
        let fut = async move {
            let r = match kind {
                Kind::Ping => errstr(h.ping().await),
                k => {
                    let qos = match k {
                        Kind::Pub0 => QoS::AtMostOnce,
                        Kind::Pub1 => QoS::AtLeastOnce,
                        _ => QoS::ExactlyOnce,
                    };
                    errstr(h.publish(PublishOpts::new().topic_name("t").qos(qos).payload(b"p")).await)
                }
            };
            pool.borrow_mut().push(h);
            r
        };
        let (fut, abort) = abortable(fut);
        let slot = self.b.exec.spawn(async move {
            match fut.await {
                Ok(r) => r,
                Err(_) => Err("aborted".to_string()),
            }
        });
        self.b.exec.settle();
        let w = self.b.written();
        let n = self.ops.len();
        self.trace.push(format!("submit #{} {:?} -> wrote {:02x?}", n, kind, w));
        let mut op = Op { kind, slot, abort, id: 0, phase: 0, cancelled: false, finished: false, expect: None };
        match kind {
            Kind::Ping => {
                if w != vec![vec![0xc0u8, 0]] {
                    self.fail(format!("ping must write exactly one PINGREQ, wrote {:02x?}", w));
                }
                self.pings.push_back(n);
            }
            Kind::Pub0 => {
                if w.len() != 1 || w[0][0] != 0x30 {
                    self.fail(format!("QoS 0 publish must write exactly one PUBLISH with QoS 0, DUP 0: {:02x?}", w));
                }
                op.finished = true;
                op.expect = Some(Ok(()));
            }
            Kind::Pub1 | Kind::Pub2 => {
                if self.holding.len() >= self.r {
                    if !w.is_empty() {
                        self.fail(format!("{} QoS>0 publishes are outstanding (Receive Maximum {}): nothing may be written, wrote {:02x?}", self.holding.len(), self.r, w));
                    }
                    op.finished = true;
                    op.expect = Some(Err("QuotaExceeded"));
                } else {
                    let first = if kind == Kind::Pub1 { 0x32 } else { 0x34 };
                    if w.len() != 1 || w[0][0] != first {
                        self.fail(format!("only {} of {} slots taken: exactly one PUBLISH (first byte {:02x}) must be written, wrote {:02x?}", self.holding.len(), self.r, first, w));
                    }
                    op.id = publish_id(&w[0]);
                    if op.id == 0 || self.ids_in_use().contains(&op.id) {
                        self.fail(format!("packet identifier {} is zero or already in use by an unfinished exchange ({:?})", op.id, self.ids_in_use()));
                    }
                    self.holding.push(n);
                }
            }
        }
        self.ops.push(op);
        self.check_callers();
    }

    fn cancel(&mut self, i: usize) {
        self.trace.push(format!("cancel #{}", i));
        self.ops[i].abort.abort();
        self.ops[i].cancelled = true;
        self.b.exec.settle();
        let w = self.b.written();
        if !w.is_empty() {
            self.fail(format!("cancelling wrote {:02x?}", w));
        }
        self.check_callers();
    }

    /// operations the broker can acknowledge now
    fn ackable(&self) -> Vec<usize> {
        let mut v: Vec<usize> = self.holding.clone();
        if let Some(p) = self.pings.front() {
            v.push(*p);
        }
        v
    }

    fn broker_batch(&mut self, rng: &mut Rng) {
        let mut cands = self.ackable();
        if cands.is_empty() {
            return;
        }
        let n = 1 + rng.below(3.min(cands.len()));
        let mut bytes = Vec::new();
        let mut expect_pubrel: Vec<u16> = vec![];
        let mut desc = vec![];
        for _ in 0..n {
            let i = cands.remove(rng.below(cands.len()));
            let fail_reason = [0x80u8, 0x97, 0x91][rng.below(3)];
            let ok_reason = [None, Some(0u8), Some(0x10)][rng.below(3)];
            let failing = rng.below(4) == 0;
            let (kind, phase, id, cancelled) = (self.ops[i].kind, self.ops[i].phase, self.ops[i].id, self.ops[i].cancelled);
            match (kind, phase) {
                (Kind::Ping, _) => {
                    bytes.extend_from_slice(&[0xd0, 0]);
                    self.pings.pop_front();
                    self.ops[i].finished = true;
                    self.ops[i].expect = Some(Ok(()));
                    desc.push(format!("PINGRESP(#{})", i));
                }
                (Kind::Pub1, _) => {
                    let reason = if failing { Some(fail_reason) } else { ok_reason };
                    bytes.extend_from_slice(&ack(0x40, id, reason));
                    self.holding.retain(|x| *x != i);
                    self.ops[i].finished = true;
                    self.ops[i].expect = Some(if failing { Err("PubackError") } else { Ok(()) });
                    desc.push(format!("PUBACK(#{} id {} {:?})", i, id, reason));
                }
                (Kind::Pub2, 0) => {
                    let reason = if failing { Some(fail_reason) } else { ok_reason };
                    bytes.extend_from_slice(&ack(0x50, id, reason));
                    if failing {
                        self.holding.retain(|x| *x != i);
                        self.ops[i].finished = true;
                        self.ops[i].expect = Some(Err("PubrecError"));
                    } else {
                        self.ops[i].phase = 1;
                        if !cancelled {
                            expect_pubrel.push(id);
                        }
                    }
                    desc.push(format!("PUBREC(#{} id {} {:?})", i, id, reason));
                }
                (Kind::Pub2, _) => {
                    // PUBCOMP knows the reasons 0x00 and 0x92 only
                    let reason = if failing { Some(0x92u8) } else if ok_reason.is_none() { None } else { Some(0u8) };
                    bytes.extend_from_slice(&ack(0x70, id, reason));
                    self.holding.retain(|x| *x != i);
                    self.ops[i].finished = true;
                    self.ops[i].expect = Some(if failing { Err("PubcompError") } else { Ok(()) });
                    desc.push(format!("PUBCOMP(#{} id {} {:?})", i, id, reason));
                }
                _ => unreachable!(),
            }
        }
        // one read, or cut at a random byte
        let cut = rng.below(bytes.len() + 1);
        self.trace.push(format!("broker sends {} as {:02x?} cut at {}", desc.join(" + "), bytes, cut));
        if cut == 0 || cut == bytes.len() {
            self.b.feed(&bytes);
        } else {
            self.b.feed(&bytes[..cut]);
            self.b.feed(&bytes[cut..]);
        }
        let w = self.b.written();
        let mut got: Vec<u16> = vec![];
        for f in &w {
            if f[0] != 0x62 {
                self.fail(format!("only PUBREL may be written in reaction to acknowledgements, wrote {:02x?}", f));
            }
            got.push(u16::from_be_bytes([f[2], f[3]]));
        }
        got.sort();
        expect_pubrel.sort();
        if got != expect_pubrel {
            self.fail(format!("PUBREL expected for identifiers {:?}, written for {:?}", expect_pubrel, got));
        }
        self.check_callers();
    }

    fn history(seed: u64, steps: usize) {
        let mut rng = Rng(seed.wrapping_mul(0x9e3779b97f4a7c15) | 1);
        let r = 1 + rng.below(3);
        let mut w = World::new(r);
        for _ in 0..steps {
            match rng.below(10) {
                0..=4 => {
                    let kind = [Kind::Pub0, Kind::Pub1, Kind::Pub1, Kind::Pub2, Kind::Pub2, Kind::Ping][rng.below(6)];
                    let pick = rng.below(1 << 20);
                    w.submit(kind, pick);
                }
                5..=8 => w.broker_batch(&mut rng),
                _ => {
                    // cancel an outstanding QoS 1 publish or ping (a cancelled QoS 2 exchange never sends its PUBREL, so
                    // its slot is held for good by design of the protocol flow: not exercised here)
                    let c: Vec<usize> = (0..w.ops.len())
                        .filter(|i| {
                            let o = &w.ops[*i];
                            !o.finished && !o.cancelled && (o.kind == Kind::Pub1 || o.kind == Kind::Ping)
                        })
                        .collect();
                    if !c.is_empty() {
                        let i = c[rng.below(c.len())];
                        w.cancel(i);
                    }
                }
            }
        }
        // drain: everything still outstanding is acknowledged, one exchange step per batch
        let mut guard = 0;
        while !w.ackable().is_empty() {
            w.broker_batch(&mut rng);
            guard += 1;
            assert!(guard < 10_000);
        }
        // no slot leaked, none invented: exactly R further QoS>0 publishes are accepted
        for _ in 0..w.r {
            w.submit(Kind::Pub1, 1);
            if w.ops.last().unwrap().expect.is_some() {
                w.fail("a QoS 1 publish was refused although every earlier exchange is complete (leaked slot)".to_string());
            }
        }
        w.submit(Kind::Pub1, 2);
        if w.ops.last().unwrap().expect != Some(Err("QuotaExceeded")) {
            w.fail("publish R+1 was accepted (invented slot)".to_string());
        }
    }
}

fn scale() -> u64 {
    if std::env::var("VERIF_TIER").map(|t| t == "thorough").unwrap_or(false) {
        10
    } else {
        1
    }
}

#[test]
fn random_histories_follow_the_reference_model() {
    let base: u64 = std::env::var("VERIF_SEED").ok().and_then(|s| s.parse().ok()).unwrap_or(1);
    for k in 0..1500 * scale() {
        World::history(base * 1_000_003 + k, 40);
    }
}

#[test]
fn long_histories_follow_the_reference_model() {
    let base: u64 = std::env::var("VERIF_SEED").ok().and_then(|s| s.parse().ok()).unwrap_or(1);
    for k in 0..20 * scale() {
        World::history(base * 7_000_003 + k, 1500);
    }
}
