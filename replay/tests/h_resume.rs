//! Model-based replay of random histories that END IN A LOST CONNECTION AND A RESUMED SESSION (bounded stand-in for C17;
//! the second line when a change adds code the deductive check cannot read).  Before the connection is lost the client
//! publishes with QoS 1 and 2 and the broker acknowledges some of it, in any order, sometimes REPEATING a PUBREC it has
//! already sent (MQTT allows the repetition); then the transport ends, the session is resumed inside its expiry interval, and
//! the reference model says exactly what must be re-sent, in which order: every unfinished step, once — the PUBLISH with
//! DUP=1 and its identifier where no PUBACK/PUBREC arrived, the PUBREL where a PUBREC arrived but no PUBCOMP — and nothing
//! else; finally everything re-sent is acknowledged and every caller must see its publish succeed.
//! Needs the hook `Context::verif_mark_disconnected` (cfg poster_verif).
#![cfg(poster_verif)]
use poster::*;
use poster_replay::*;
use std::time::Duration;

struct Rng(u64);
impl Rng {
    fn next(&mut self) -> u64 {
        self.0 ^= self.0 << 13;
        self.0 ^= self.0 >> 7;
        self.0 ^= self.0 << 17;
        self.0
    }
    fn below(&mut self, n: usize) -> usize {
        (self.next() % n as u64) as usize
    }
}

#[derive(Clone, Copy, PartialEq, Debug)]
enum Step {
    Publish(u8),
    Pubrel,
}

fn history(seed: u64, steps: usize) {
    let mut rng = Rng(seed.wrapping_mul(0x9e3779b97f4a7c15) | 1);
    let mut trace: Vec<String> = vec![];
    let mut exec = Exec::new();
    let rx = ScriptedRx::default();
    let tx = RecordingTx::default();
    let (mut ctx, handle) = poster::Context::new();
    ctx.set_up((rx.clone(), tx.clone()));
    rx.push(&connack(0, &[]));
    let run = exec.spawn(async move {
        ctx.connect(ConnectOpts::new().session_expiry_interval(Duration::from_secs(1000))).await.map_err(|e| format!("{:?}", e)).unwrap();
        let r = ctx.run().await;
        (ctx, format!("{:?}", r))
    });
    exec.settle();
    tx.take();
    // the model of the retransmission queue: unfinished steps in the order they were sent
    let mut queue: Vec<(Step, u16)> = vec![];
    let mut pubrec_seen: Vec<u16> = vec![];
    let mut ops: Vec<(u16, Slot<Result<(), String>>)> = vec![];
    macro_rules! fail {
        ($($a:tt)*) => { panic!("{}\nhistory:\n  {}", format!($($a)*), trace.join("\n  ")) };
    }
    for _ in 0..steps {
        match rng.below(5) {
            0 | 1 => {
                let qos = 1 + rng.below(2) as u8;
                let mut h = handle.clone();
                let q = if qos == 1 { QoS::AtLeastOnce } else { QoS::ExactlyOnce };
                let slot = exec.spawn(async move { errstr(h.publish(PublishOpts::new().topic_name("t").qos(q).payload(b"p")).await) });
                exec.settle();
                let w = frames(&tx.take());
                if w.len() != 1 || w[0][0] != 0x30 | (qos << 1) {
                    fail!("publish QoS {} wrote {:02x?}", qos, w);
                }
                let id = u16::from_be_bytes([w[0][5], w[0][6]]);
                trace.push(format!("publish QoS {} -> id {}", qos, id));
                queue.push((Step::Publish(qos), id));
                ops.push((id, slot));
            }
            2 | 3 => {
                if queue.is_empty() {
                    continue;
                }
                let k = rng.below(queue.len());
                let (step, id) = queue[k];
                match step {
                    Step::Publish(1) => {
                        trace.push(format!("PUBACK {}", id));
                        queue.remove(k);
                        rx.push(&ack(0x40, id, None));
                        exec.settle();
                    }
                    Step::Publish(_) => {
                        trace.push(format!("PUBREC {}", id));
                        queue.remove(k);
                        rx.push(&ack(0x50, id, None));
                        exec.settle();
                        let w = frames(&tx.take());
                        if w != vec![ack(0x62, id, None)] {
                            fail!("PUBREC {} must be answered by PUBREL {}, wrote {:02x?}", id, id, w);
                        }
                        queue.push((Step::Pubrel, id));
                        pubrec_seen.push(id);
                        continue;
                    }
                    Step::Pubrel => {
                        trace.push(format!("PUBCOMP {}", id));
                        queue.remove(k);
                        pubrec_seen.retain(|x| *x != id);
                        rx.push(&ack(0x70, id, None));
                        exec.settle();
                    }
                }
                let w = frames(&tx.take());
                if !w.is_empty() {
                    fail!("an acknowledgement made the client write {:02x?}", w);
                }
            }
            _ => {
                // the broker repeats a PUBREC whose PUBREL it has not seen yet: the exchange stays where it is
                if pubrec_seen.is_empty() {
                    continue;
                }
                let id = pubrec_seen[rng.below(pubrec_seen.len())];
                trace.push(format!("PUBREC {} repeated", id));
                rx.push(&ack(0x50, id, None));
                exec.settle();
                let w = frames(&tx.take());
                // (answering the repetition with the PUBREL again is legitimate, anything else is not)
                if !(w.is_empty() || w == vec![ack(0x62, id, None)]) {
                    fail!("a repeated PUBREC {} made the client write {:02x?}", id, w);
                }
            }
        }
    }
    // the connection is lost ...
    rx.push_chunk(Chunk::Eof);
    exec.settle();
    let (mut ctx, res) = match run.borrow_mut().take() {
        Some(x) => x,
        None => fail!("run() did not end on end-of-stream"),
    };
    if !res.contains("SocketClosed") {
        fail!("run() ended with {}", res);
    }
    // ... and the session is resumed 10 s later (expiry interval 1000 s)
    ctx.verif_mark_disconnected(10);
    let rx = ScriptedRx::default();
    let tx = RecordingTx::default();
    ctx.set_up((rx.clone(), tx.clone()));
    rx.push(&connack(0, &[]));
    let run2 = exec.spawn(async move {
        ctx.connect(ConnectOpts::new().session_expiry_interval(Duration::from_secs(1000))).await.map_err(|e| format!("{:?}", e)).unwrap();
        let r = ctx.run().await;
        (ctx, format!("{:?}", r))
    });
    exec.settle();
    let mut w = frames(&tx.take());
    if w.is_empty() || w[0][0] != 0x10 {
        fail!("reconnect must start with CONNECT, wrote {:02x?}", w);
    }
    w.remove(0);
    trace.push(format!("connection lost and resumed; model queue {:?}; re-sent {:02x?}", queue, w));
    if w.len() != queue.len() {
        fail!("{} unfinished steps, {} packets re-sent", queue.len(), w.len());
    }
    for (f, (step, id)) in w.iter().zip(queue.iter()) {
        let ok = match step {
            Step::Publish(q) => f[0] == 0x30 | 0x08 | (q << 1) && u16::from_be_bytes([f[5], f[6]]) == *id && &f[f.len() - 1..] == b"p",
            Step::Pubrel => *f == ack(0x62, *id, None),
        };
        if !ok {
            fail!("step {:?} of exchange {} must be re-sent here (PUBLISH with DUP=1 and its identifier, or PUBREL), got {:02x?}", step, id, f);
        }
    }
    // the broker now finishes every exchange: every caller sees its publish succeed
    let mut guard = 0;
    while let Some((step, id)) = queue.first().copied() {
        guard += 1;
        assert!(guard < 100_000);
        queue.remove(0);
        match step {
            Step::Publish(1) => rx.push(&ack(0x40, id, None)),
            Step::Publish(_) => {
                rx.push(&ack(0x50, id, None));
                exec.settle();
                let w = frames(&tx.take());
                if w != vec![ack(0x62, id, None)] {
                    fail!("after resume: PUBREC {} must be answered by PUBREL, wrote {:02x?}", id, w);
                }
                queue.push((Step::Pubrel, id));
            }
            Step::Pubrel => rx.push(&ack(0x70, id, None)),
        }
        exec.settle();
    }
    for (id, slot) in &ops {
        if *slot.borrow() != Some(Ok(())) {
            fail!("publish with identifier {} ended with {:?} although its exchange was completed", id, slot.borrow());
        }
    }
    if run2.borrow().is_some() {
        fail!("run() ended after the resume");
    }
}

fn scale() -> u64 {
    if std::env::var("VERIF_TIER").map(|t| t == "thorough").unwrap_or(false) {
        10
    } else {
        1
    }
}

#[test]
fn random_histories_resume_exactly_the_unfinished_steps() {
    let base: u64 = std::env::var("VERIF_SEED").ok().and_then(|s| s.parse().ok()).unwrap_or(1);
    for k in 0..2000 * scale() {
        history(base * 5_000_011 + k, 4 + (k % 40) as usize);
    }
}
