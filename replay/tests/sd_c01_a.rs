//! C01 demonstration: the CONNECT packet written by the client must be a well-formed
//! MQTT 5 packet which decodes (with an independent decoder, written from the standard)
//! to exactly the options the caller supplied.
//!
//! The client is driven over an in-memory scripted transport; the bytes it writes are
//! decoded by the small CONNECT decoder below.

use futures::{executor::block_on, AsyncRead, AsyncWrite};
use poster::{ConnectOpts, Context, QoS};
use std::{
    io,
    pin::Pin,
    sync::{Arc, Mutex},
    task::{Context as TaskContext, Poll},
    time::Duration,
};

// ---------------------------------------------------------------------------------------
// Scripted transport
// ---------------------------------------------------------------------------------------

/// Read half: hands out the scripted broker bytes, then reports end of stream.
struct ScriptedRx {
    data: Vec<u8>,
    pos: usize,
}

impl AsyncRead for ScriptedRx {
    fn poll_read(
        mut self: Pin<&mut Self>,
        _cx: &mut TaskContext<'_>,
        buf: &mut [u8],
    ) -> Poll<io::Result<usize>> {
        let n = buf.len().min(self.data.len() - self.pos);
        let pos = self.pos;
        buf[..n].copy_from_slice(&self.data[pos..pos + n]);
        self.pos += n;
        Poll::Ready(Ok(n))
    }
}

/// Write half: records everything the client writes. Accepts at most `chunk` bytes per call
/// and answers `Pending` (with an immediate wake-up) every other call.
struct RecordingTx {
    wire: Arc<Mutex<Vec<u8>>>,
    chunk: usize,
    stall: bool,
}

impl AsyncWrite for RecordingTx {
    fn poll_write(
        mut self: Pin<&mut Self>,
        cx: &mut TaskContext<'_>,
        buf: &[u8],
    ) -> Poll<io::Result<usize>> {
        self.stall = !self.stall;
        if self.stall {
            cx.waker().wake_by_ref();
            return Poll::Pending;
        }

        let n = buf.len().min(self.chunk);
        self.wire.lock().unwrap().extend_from_slice(&buf[..n]);
        Poll::Ready(Ok(n))
    }

    fn poll_flush(self: Pin<&mut Self>, _cx: &mut TaskContext<'_>) -> Poll<io::Result<()>> {
        Poll::Ready(Ok(()))
    }

    fn poll_close(self: Pin<&mut Self>, _cx: &mut TaskContext<'_>) -> Poll<io::Result<()>> {
        Poll::Ready(Ok(()))
    }
}

// ---------------------------------------------------------------------------------------
// Independent CONNECT decoder (MQTT Version 5.0, section 3.1)
// ---------------------------------------------------------------------------------------

#[derive(Debug, Default, PartialEq, Clone)]
struct Will {
    qos: u8,
    retain: bool,
    delay_interval: Option<u32>,
    payload_format_indicator: Option<u8>,
    message_expiry_interval: Option<u32>,
    content_type: Option<String>,
    response_topic: Option<String>,
    correlation_data: Option<Vec<u8>>,
    user_properties: Vec<(String, String)>,
    topic: String,
    payload: Vec<u8>,
}

#[derive(Debug, Default, PartialEq, Clone)]
struct Connect {
    clean_start: bool,
    keep_alive: u16,
    session_expiry_interval: Option<u32>,
    receive_maximum: Option<u16>,
    maximum_packet_size: Option<u32>,
    topic_alias_maximum: Option<u16>,
    request_response_information: Option<u8>,
    request_problem_information: Option<u8>,
    authentication_method: Option<String>,
    authentication_data: Option<Vec<u8>>,
    user_properties: Vec<(String, String)>,
    client_identifier: String,
    will: Option<Will>,
    username: Option<String>,
    password: Option<Vec<u8>>,
}

struct Reader<'a> {
    buf: &'a [u8],
    pos: usize,
}

impl<'a> Reader<'a> {
    fn new(buf: &'a [u8]) -> Self {
        Self { buf, pos: 0 }
    }

    fn remaining(&self) -> usize {
        self.buf.len() - self.pos
    }

    fn take(&mut self, n: usize) -> Result<&'a [u8], String> {
        if self.remaining() < n {
            return Err(format!(
                "truncated: need {} bytes at offset {}, {} left",
                n,
                self.pos,
                self.remaining()
            ));
        }
        let out = &self.buf[self.pos..self.pos + n];
        self.pos += n;
        Ok(out)
    }

    fn u8(&mut self) -> Result<u8, String> {
        Ok(self.take(1)?[0])
    }

    fn u16(&mut self) -> Result<u16, String> {
        let b = self.take(2)?;
        Ok(u16::from_be_bytes([b[0], b[1]]))
    }

    fn u32(&mut self) -> Result<u32, String> {
        let b = self.take(4)?;
        Ok(u32::from_be_bytes([b[0], b[1], b[2], b[3]]))
    }

    /// Variable Byte Integer (1.5.5); must use the minimum number of bytes.
    fn varint(&mut self) -> Result<usize, String> {
        let mut value = 0usize;
        for idx in 0..4 {
            let byte = self.u8()?;
            value |= ((byte & 0x7f) as usize) << (7 * idx);
            if byte & 0x80 == 0 {
                if idx > 0 && byte == 0 {
                    return Err("variable byte integer is not minimally encoded".into());
                }
                return Ok(value);
            }
        }
        Err("variable byte integer longer than 4 bytes".into())
    }

    fn binary(&mut self) -> Result<Vec<u8>, String> {
        let len = self.u16()? as usize;
        Ok(self.take(len)?.to_vec())
    }

    fn string(&mut self) -> Result<String, String> {
        String::from_utf8(self.binary()?).map_err(|e| format!("invalid UTF-8 string: {}", e))
    }
}

fn set_once<T>(slot: &mut Option<T>, val: T, id: u8) -> Result<(), String> {
    if slot.is_some() {
        return Err(format!("property 0x{:02x} included more than once", id));
    }
    *slot = Some(val);
    Ok(())
}

/// Decodes exactly one CONNECT packet which must span the whole of `wire`.
fn decode_connect(wire: &[u8]) -> Result<Connect, String> {
    let mut rd = Reader::new(wire);

    let fixed_hdr = rd.u8()?;
    if fixed_hdr != 0x10 {
        return Err(format!("fixed header 0x{:02x}, expected 0x10", fixed_hdr));
    }

    let remaining_len = rd.varint()?;
    if remaining_len != rd.remaining() {
        return Err(format!(
            "remaining length {} but {} bytes follow it",
            remaining_len,
            rd.remaining()
        ));
    }

    if rd.string()? != "MQTT" {
        return Err("bad protocol name".into());
    }
    if rd.u8()? != 5 {
        return Err("bad protocol version".into());
    }

    let flags = rd.u8()?;
    if flags & 0x01 != 0 {
        return Err("reserved connect flag set".into());
    }
    let clean_start = flags & 0x02 != 0;
    let will_flag = flags & 0x04 != 0;
    let will_qos = (flags >> 3) & 0x03;
    let will_retain = flags & 0x20 != 0;
    let password_flag = flags & 0x40 != 0;
    let username_flag = flags & 0x80 != 0;

    if will_qos == 3 {
        return Err("will QoS 3".into());
    }
    if !will_flag && (will_qos != 0 || will_retain) {
        return Err("will QoS/retain set without will flag".into());
    }

    let mut out = Connect {
        clean_start,
        keep_alive: rd.u16()?,
        ..Default::default()
    };

    // CONNECT properties (3.1.2.11)
    let property_len = rd.varint()?;
    let mut props = Reader::new(rd.take(property_len)?);
    while props.remaining() > 0 {
        let id = props.u8()?;
        match id {
            0x11 => set_once(&mut out.session_expiry_interval, props.u32()?, id)?,
            0x21 => {
                let val = props.u16()?;
                if val == 0 {
                    return Err("receive maximum 0".into());
                }
                set_once(&mut out.receive_maximum, val, id)?
            }
            0x27 => {
                let val = props.u32()?;
                if val == 0 {
                    return Err("maximum packet size 0".into());
                }
                set_once(&mut out.maximum_packet_size, val, id)?
            }
            0x22 => set_once(&mut out.topic_alias_maximum, props.u16()?, id)?,
            0x19 => {
                let val = props.u8()?;
                if val > 1 {
                    return Err("request response information not 0/1".into());
                }
                set_once(&mut out.request_response_information, val, id)?
            }
            0x17 => {
                let val = props.u8()?;
                if val > 1 {
                    return Err("request problem information not 0/1".into());
                }
                set_once(&mut out.request_problem_information, val, id)?
            }
            0x15 => set_once(&mut out.authentication_method, props.string()?, id)?,
            0x16 => set_once(&mut out.authentication_data, props.binary()?, id)?,
            0x26 => {
                let key = props.string()?;
                let val = props.string()?;
                out.user_properties.push((key, val));
            }
            _ => return Err(format!("property 0x{:02x} not allowed in CONNECT", id)),
        }
    }
    if out.authentication_data.is_some() && out.authentication_method.is_none() {
        return Err("authentication data without authentication method".into());
    }

    // Payload (3.1.3): client identifier, will properties, will topic, will payload,
    // user name, password - in this order, each present as told by the connect flags.
    out.client_identifier = rd.string()?;

    if will_flag {
        let mut will = Will {
            qos: will_qos,
            retain: will_retain,
            ..Default::default()
        };

        let will_property_len = rd.varint()?;
        let mut props = Reader::new(rd.take(will_property_len)?);
        while props.remaining() > 0 {
            let id = props.u8()?;
            match id {
                0x18 => set_once(&mut will.delay_interval, props.u32()?, id)?,
                0x01 => {
                    let val = props.u8()?;
                    if val > 1 {
                        return Err("payload format indicator not 0/1".into());
                    }
                    set_once(&mut will.payload_format_indicator, val, id)?
                }
                0x02 => set_once(&mut will.message_expiry_interval, props.u32()?, id)?,
                0x03 => set_once(&mut will.content_type, props.string()?, id)?,
                0x08 => set_once(&mut will.response_topic, props.string()?, id)?,
                0x09 => set_once(&mut will.correlation_data, props.binary()?, id)?,
                0x26 => {
                    let key = props.string()?;
                    let val = props.string()?;
                    will.user_properties.push((key, val));
                }
                _ => return Err(format!("property 0x{:02x} not allowed in a will", id)),
            }
        }

        will.topic = rd.string()?;
        will.payload = rd.binary()?;
        out.will = Some(will);
    }

    if username_flag {
        out.username = Some(rd.string()?);
    }

    if password_flag {
        out.password = Some(rd.binary()?);
    }

    if rd.remaining() != 0 {
        return Err(format!(
            "{} bytes left in the packet after the payload announced by connect flags 0x{:02x}",
            rd.remaining(),
            flags
        ));
    }

    Ok(out)
}

// ---------------------------------------------------------------------------------------
// Harness
// ---------------------------------------------------------------------------------------

const CONNACK_SUCCESS: [u8; 5] = [0x20, 0x03, 0x00, 0x00, 0x00];

/// Connects with `opts` over a scripted transport (write half accepting `chunk` bytes at a time)
/// and returns everything the client has written.
fn wire_of_connect(opts: ConnectOpts<'_>, chunk: usize) -> Vec<u8> {
    let wire = Arc::new(Mutex::new(Vec::new()));
    let rx = ScriptedRx {
        data: CONNACK_SUCCESS.to_vec(),
        pos: 0,
    };
    let tx = RecordingTx {
        wire: wire.clone(),
        chunk,
        stall: false,
    };

    let (mut ctx, _handle) = Context::new();
    ctx.set_up((rx, tx));
    block_on(ctx.connect(opts)).expect("connect request must be accepted");

    let out = wire.lock().unwrap().clone();
    out
}

fn check(name: &str, opts: ConnectOpts<'_>, expected: &Connect) {
    // The write half takes 5 bytes at a time, with a Pending before each accepted chunk.
    let wire = wire_of_connect(opts, 5);
    let decoded = decode_connect(&wire).unwrap_or_else(|err| {
        panic!(
            "[{}] CONNECT is not well-formed: {}\nwire: {:02x?}",
            name, err, wire
        )
    });
    assert_eq!(
        &decoded, expected,
        "[{}] decoded CONNECT differs from the caller's options",
        name
    );
}

#[test]
fn connect_without_credentials() {
    check(
        "no credentials",
        ConnectOpts::new().client_identifier("cid"),
        &Connect {
            client_identifier: "cid".into(),
            ..Default::default()
        },
    );
}

#[test]
fn connect_with_username_only() {
    check(
        "username only",
        ConnectOpts::new().client_identifier("cid").username("alice"),
        &Connect {
            client_identifier: "cid".into(),
            username: Some("alice".into()),
            ..Default::default()
        },
    );
}

#[test]
fn connect_with_username_and_password() {
    check(
        "username and password",
        ConnectOpts::new()
            .client_identifier("cid")
            .username("alice")
            .password(b"secret"),
        &Connect {
            client_identifier: "cid".into(),
            username: Some("alice".into()),
            password: Some(b"secret".to_vec()),
            ..Default::default()
        },
    );
}

/// MQTT 5 (unlike MQTT 3.1.1) allows a password without a user name (3.1.2.9), e.g. for
/// bearer tokens.
#[test]
fn connect_with_password_only() {
    check(
        "password only",
        ConnectOpts::new().client_identifier("cid").password(b"token"),
        &Connect {
            client_identifier: "cid".into(),
            password: Some(b"token".to_vec()),
            ..Default::default()
        },
    );
}

#[test]
fn connect_with_everything_but_username() {
    let big = "x".repeat(128);
    check(
        "all options, password only",
        ConnectOpts::new()
            .client_identifier("client-1")
            .keep_alive(Duration::from_secs(65535))
            .clean_start(true)
            .session_expiry_interval(Duration::from_secs(u32::MAX as u64))
            .receive_maximum(1)
            .maximum_packet_size(u32::MAX)
            .topic_alias_maximum(65535)
            .request_response_information(true)
            .request_problem_information(false)
            .authentication_method("SCRAM")
            .authentication_data(&[0, 1, 2])
            .user_property(("k1", "v1"))
            .user_property(("k1", &big))
            .will_qos(QoS::ExactlyOnce)
            .will_retain(true)
            .will_delay_interval(Duration::from_secs(7))
            .will_payload_format_indicator(true)
            .will_message_expiry_interval(Duration::from_secs(9))
            .will_content_type("text/plain")
            .will_response_topic("re/ply")
            .will_correlation_data(&[9, 8, 7])
            .will_user_property(("wk", &big))
            .will_topic("last/will")
            .will_payload(b"bye")
            .password(&[0xde, 0xad, 0xbe, 0xef]),
        &Connect {
            clean_start: true,
            keep_alive: 65535,
            session_expiry_interval: Some(u32::MAX),
            receive_maximum: Some(1),
            maximum_packet_size: Some(u32::MAX),
            topic_alias_maximum: Some(65535),
            request_response_information: Some(1),
            request_problem_information: Some(0),
            authentication_method: Some("SCRAM".into()),
            authentication_data: Some(vec![0, 1, 2]),
            user_properties: vec![("k1".into(), "v1".into()), ("k1".into(), big.clone())],
            client_identifier: "client-1".into(),
            will: Some(Will {
                qos: 2,
                retain: true,
                delay_interval: Some(7),
                payload_format_indicator: Some(1),
                message_expiry_interval: Some(9),
                content_type: Some("text/plain".into()),
                response_topic: Some("re/ply".into()),
                correlation_data: Some(vec![9, 8, 7]),
                user_properties: vec![("wk".into(), big.clone())],
                topic: "last/will".into(),
                payload: b"bye".to_vec(),
            }),
            username: None,
            password: Some(vec![0xde, 0xad, 0xbe, 0xef]),
        },
    );
}
