//! Demonstration for property C01 (every packet written is well-formed MQTT 5 and carries the
//! caller's options), exercised on DISCONNECT with boundary-sized reason strings.
//!
//! The client is driven over an in-memory transport which accepts writes in fragments and
//! sometimes answers `Pending`. Everything the client wrote is then decoded with a small,
//! independent MQTT 5 decoder and compared with what the caller supplied.

use futures::{executor::block_on, AsyncRead, AsyncWrite};
use poster::{reason::DisconnectReason, ConnectOpts, Context, DisconnectOpts};
use std::{
    io,
    pin::Pin,
    sync::{Arc, Mutex},
    task::{Context as TaskContext, Poll},
    time::Duration,
};

// ---------------------------------------------------------------------------------------------
// Scripted transport
// ---------------------------------------------------------------------------------------------

/// Read half: hands out the scripted bytes, then stays silent (never EOF).
struct ScriptedRx {
    data: Vec<u8>,
    pos: usize,
}

impl AsyncRead for ScriptedRx {
    fn poll_read(
        mut self: Pin<&mut Self>,
        _cx: &mut TaskContext<'_>,
        buf: &mut [u8],
    ) -> Poll<io::Result<usize>> {
        if self.pos == self.data.len() {
            return Poll::Pending; // The broker has nothing more to say.
        }

        let n = buf.len().min(self.data.len() - self.pos);
        let pos = self.pos;
        buf[..n].copy_from_slice(&self.data[pos..pos + n]);
        self.pos += n;
        Poll::Ready(Ok(n))
    }
}

/// Write half: records the wire; accepts at most `chunk` bytes per call and answers `Pending`
/// on every third call.
struct FragmentingTx {
    wire: Arc<Mutex<Vec<u8>>>,
    chunk: usize,
    calls: usize,
}

impl AsyncWrite for FragmentingTx {
    fn poll_write(
        mut self: Pin<&mut Self>,
        cx: &mut TaskContext<'_>,
        buf: &[u8],
    ) -> Poll<io::Result<usize>> {
        self.calls += 1;
        if self.calls % 3 == 0 {
            cx.waker().wake_by_ref();
            return Poll::Pending;
        }

        let n = buf.len().min(self.chunk);
        self.wire.lock().unwrap().extend_from_slice(&buf[..n]);
        Poll::Ready(Ok(n))
    }

    fn poll_flush(self: Pin<&mut Self>, _cx: &mut TaskContext<'_>) -> Poll<io::Result<()>> {
        Poll::Ready(Ok(()))
    }

    fn poll_close(self: Pin<&mut Self>, _cx: &mut TaskContext<'_>) -> Poll<io::Result<()>> {
        Poll::Ready(Ok(()))
    }
}

// ---------------------------------------------------------------------------------------------
// Independent decoder
// ---------------------------------------------------------------------------------------------

/// Strict Variable Byte Integer: at most four bytes, minimal encoding. Returns (value, size).
fn var_int(bytes: &[u8]) -> (usize, usize) {
    let mut val = 0usize;
    for (idx, byte) in bytes.iter().take(4).enumerate() {
        val |= ((byte & 0x7f) as usize) << (7 * idx);
        if byte & 0x80 == 0 {
            assert!(
                idx == 0 || *byte != 0,
                "variable byte integer is not minimally encoded"
            );
            return (val, idx + 1);
        }
    }
    panic!("malformed variable byte integer: {:x?}", &bytes[..bytes.len().min(5)]);
}

fn utf8(bytes: &[u8]) -> (String, usize) {
    assert!(bytes.len() >= 2, "truncated string length");
    let len = u16::from_be_bytes([bytes[0], bytes[1]]) as usize;
    assert!(bytes.len() >= 2 + len, "truncated string");
    (
        String::from_utf8(bytes[2..2 + len].to_vec()).expect("string is not UTF-8"),
        2 + len,
    )
}

/// Splits the wire into whole control packets: (fixed header byte, body after remaining length).
fn split_packets(mut wire: &[u8]) -> Vec<(u8, Vec<u8>)> {
    let mut packets = Vec::new();
    while !wire.is_empty() {
        assert!(wire.len() >= 2, "truncated fixed header");
        let (remaining_len, size) = var_int(&wire[1..]);
        let end = 1 + size + remaining_len;
        assert!(
            wire.len() >= end,
            "remaining length {} exceeds the {} bytes which follow it",
            remaining_len,
            wire.len() - 1 - size
        );
        packets.push((wire[0], wire[1 + size..end].to_vec()));
        wire = &wire[end..];
    }
    packets
}

#[derive(Debug, PartialEq, Default)]
struct Disconnect {
    reason: u8,
    session_expiry_interval: Option<u32>,
    reason_string: Option<String>,
    user_properties: Vec<(String, String)>,
}

fn decode_disconnect(body: &[u8]) -> Disconnect {
    let mut packet = Disconnect::default();
    if body.is_empty() {
        return packet; // Reason 0x00, no properties.
    }

    packet.reason = body[0];
    if body.len() == 1 {
        return packet;
    }

    let (property_len, size) = var_int(&body[1..]);
    let mut props = &body[1 + size..];
    assert_eq!(
        property_len,
        props.len(),
        "property length field does not equal the size of the properties which follow it"
    );

    while !props.is_empty() {
        let id = props[0];
        props = &props[1..];
        match id {
            0x11 => {
                assert!(packet.session_expiry_interval.is_none());
                packet.session_expiry_interval =
                    Some(u32::from_be_bytes(props[..4].try_into().unwrap()));
                props = &props[4..];
            }
            0x1f => {
                assert!(packet.reason_string.is_none());
                let (val, size) = utf8(props);
                packet.reason_string = Some(val);
                props = &props[size..];
            }
            0x26 => {
                let (key, key_size) = utf8(props);
                let (val, val_size) = utf8(&props[key_size..]);
                packet.user_properties.push((key, val));
                props = &props[key_size + val_size..];
            }
            other => panic!("property 0x{:02x} is not allowed in DISCONNECT", other),
        }
    }

    packet
}

// ---------------------------------------------------------------------------------------------
// Scenario
// ---------------------------------------------------------------------------------------------

/// Connects, disconnects with the given options and returns the decoded DISCONNECT.
fn disconnect_roundtrip(
    reason: DisconnectReason,
    session_expiry: Option<u32>,
    reason_string: Option<&str>,
    user_properties: &[(&str, &str)],
) -> Disconnect {
    const CONNACK: [u8; 5] = [0x20, 0x03, 0x00, 0x00, 0x00];

    let wire = Arc::new(Mutex::new(Vec::new()));
    let rx = ScriptedRx {
        data: CONNACK.to_vec(),
        pos: 0,
    };
    let tx = FragmentingTx {
        wire: wire.clone(),
        chunk: 4099,
        calls: 0,
    };

    let (mut ctx, mut handle) = Context::new();

    block_on(async {
        ctx.set_up((rx, tx));
        ctx.connect(ConnectOpts::new())
            .await
            .expect("CONNECT is accepted");

        let mut opts = DisconnectOpts::new().reason(reason);
        if let Some(secs) = session_expiry {
            opts = opts.session_expiry_interval(Duration::from_secs(secs as u64));
        }
        if let Some(val) = reason_string {
            opts = opts.reason_string(val);
        }
        for (key, val) in user_properties.iter().copied() {
            opts = opts.user_property((key, val));
        }

        let (run, disconnect) = futures::join!(ctx.run(), handle.disconnect(opts));
        disconnect.expect("DISCONNECT is written");
        run.expect("graceful disconnection");
    });

    let wire = wire.lock().unwrap();
    let packets = split_packets(&wire);

    assert_eq!(
        packets.len(),
        2,
        "the wire must hold exactly CONNECT followed by DISCONNECT"
    );
    assert_eq!(packets[0].0, 0x10, "first packet is CONNECT");
    assert_eq!(packets[1].0, 0xe0, "second packet is DISCONNECT");

    decode_disconnect(&packets[1].1)
}

fn check(
    reason: DisconnectReason,
    session_expiry: Option<u32>,
    reason_string_len: Option<usize>,
    user_properties: &[(usize, usize)],
) {
    let reason_string = reason_string_len.map(|len| "r".repeat(len));
    let owned: Vec<(String, String)> = user_properties
        .iter()
        .map(|&(key_len, val_len)| ("k".repeat(key_len), "v".repeat(val_len)))
        .collect();
    let borrowed: Vec<(&str, &str)> = owned
        .iter()
        .map(|(key, val)| (key.as_str(), val.as_str()))
        .collect();

    let decoded = disconnect_roundtrip(reason, session_expiry, reason_string.as_deref(), &borrowed);

    assert_eq!(decoded.reason, reason as u8);
    assert_eq!(decoded.session_expiry_interval, session_expiry);
    assert_eq!(
        decoded.reason_string.as_ref().map(String::len),
        reason_string.as_ref().map(String::len)
    );
    assert_eq!(decoded.reason_string, reason_string);
    assert_eq!(decoded.user_properties, owned);
}

#[test]
fn disconnect_small_options() {
    check(DisconnectReason::Success, None, None, &[]);
    check(DisconnectReason::DisconnectWithWillMessage, Some(3600), None, &[]);
    check(DisconnectReason::Success, None, Some(0), &[(0, 0)]);
    check(
        DisconnectReason::ImplementationSpecificError,
        Some(u32::MAX),
        Some(7),
        &[(3, 3), (1, 0)],
    );
}

#[test]
fn disconnect_reason_string_boundaries() {
    for len in [1, 127, 128, 16383, 16384, 65532] {
        check(DisconnectReason::Success, None, Some(len), &[]);
    }
}

#[test]
fn disconnect_longest_reason_string() {
    // The longest string MQTT 5 can represent.
    check(DisconnectReason::Success, None, Some(65535), &[]);
}

#[test]
fn disconnect_long_reason_string_and_user_properties() {
    check(
        DisconnectReason::UnspecifiedError,
        Some(1),
        Some(40000),
        &[(16384, 16383), (128, 127)],
    );
}
