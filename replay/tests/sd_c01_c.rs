//! Demonstration for property C01 (every packet written is well-formed MQTT 5 and carries the
//! caller's options), SUBSCRIBE with 1..n topic filters.
//!
//! The client is driven over an in-memory scripted transport. Everything it writes is captured
//! and then decoded with a small decoder written here, independent of the crate's codec:
//! the wire must split into whole packets (CONNECT, SUBSCRIBE), the SUBSCRIBE remaining-length and
//! property-length fields must equal the size of what follows them, and the decoded filters,
//! option bytes and user properties must be exactly what the caller supplied.

use futures::{AsyncRead, AsyncWrite};
use poster::{
    ConnectOpts, Context, ContextHandle, QoS, RetainHandling, SubscribeOpts, SubscriptionOpts,
};
use std::{
    collections::VecDeque,
    future::Future,
    io,
    pin::Pin,
    sync::{Arc, Mutex},
    task::{Context as TaskContext, Poll},
};

// ---------------------------------------------------------------------------------------------
// Scripted in-memory transport
// ---------------------------------------------------------------------------------------------

#[derive(Default)]
struct Wire {
    /// Bytes the client wrote, in order.
    written: Vec<u8>,
    /// Bytes the "broker" has queued for the client.
    inbound: VecDeque<u8>,
}

struct Rx(Arc<Mutex<Wire>>);

impl AsyncRead for Rx {
    fn poll_read(
        self: Pin<&mut Self>,
        _cx: &mut TaskContext<'_>,
        buf: &mut [u8],
    ) -> Poll<io::Result<usize>> {
        let mut wire = self.0.lock().unwrap();
        if wire.inbound.is_empty() || buf.is_empty() {
            // The test polls in a busy loop with a no-op waker, no wake-up needed.
            return Poll::Pending;
        }
        let mut n = 0;
        while n < buf.len() {
            match wire.inbound.pop_front() {
                Some(byte) => {
                    buf[n] = byte;
                    n += 1;
                }
                None => break,
            }
        }
        Poll::Ready(Ok(n))
    }
}

struct Tx {
    wire: Arc<Mutex<Wire>>,
    /// Accept at most this many bytes per call.
    chunk: usize,
    /// Return Pending on every other call.
    stutter: bool,
    calls: usize,
}

impl AsyncWrite for Tx {
    fn poll_write(
        mut self: Pin<&mut Self>,
        _cx: &mut TaskContext<'_>,
        buf: &[u8],
    ) -> Poll<io::Result<usize>> {
        self.calls += 1;
        if self.stutter && self.calls % 2 == 1 {
            return Poll::Pending;
        }
        let n = buf.len().min(self.chunk);
        self.wire.lock().unwrap().written.extend_from_slice(&buf[..n]);
        Poll::Ready(Ok(n))
    }

    fn poll_flush(self: Pin<&mut Self>, _cx: &mut TaskContext<'_>) -> Poll<io::Result<()>> {
        Poll::Ready(Ok(()))
    }

    fn poll_close(self: Pin<&mut Self>, _cx: &mut TaskContext<'_>) -> Poll<io::Result<()>> {
        Poll::Ready(Ok(()))
    }
}

// ---------------------------------------------------------------------------------------------
// Independent decoder
// ---------------------------------------------------------------------------------------------

struct Cursor<'a> {
    buf: &'a [u8],
    pos: usize,
}

impl<'a> Cursor<'a> {
    fn new(buf: &'a [u8]) -> Self {
        Self { buf, pos: 0 }
    }

    fn remaining(&self) -> usize {
        self.buf.len() - self.pos
    }

    fn u8(&mut self) -> Result<u8, String> {
        if self.remaining() < 1 {
            return Err(format!("truncated at offset {}", self.pos));
        }
        let val = self.buf[self.pos];
        self.pos += 1;
        Ok(val)
    }

    fn u16(&mut self) -> Result<u16, String> {
        Ok(((self.u8()? as u16) << 8) | self.u8()? as u16)
    }

    fn take(&mut self, n: usize) -> Result<&'a [u8], String> {
        if self.remaining() < n {
            return Err(format!(
                "truncated at offset {}: need {} bytes, {} left",
                self.pos,
                n,
                self.remaining()
            ));
        }
        let out = &self.buf[self.pos..self.pos + n];
        self.pos += n;
        Ok(out)
    }

    fn varint(&mut self) -> Result<u32, String> {
        let mut val = 0u32;
        for idx in 0..4 {
            let byte = self.u8()?;
            val |= ((byte & 0x7f) as u32) << (7 * idx);
            if byte & 0x80 == 0 {
                return Ok(val);
            }
        }
        Err("variable byte integer longer than 4 bytes".into())
    }

    fn string(&mut self) -> Result<String, String> {
        let len = self.u16()? as usize;
        let raw = self.take(len)?;
        String::from_utf8(raw.to_vec()).map_err(|e| e.to_string())
    }
}

/// Splits the wire into (fixed header byte, body) pairs; fails unless the wire is a concatenation
/// of whole packets.
fn split_packets(wire: &[u8]) -> Result<Vec<(u8, &[u8])>, String> {
    let mut cur = Cursor::new(wire);
    let mut out = Vec::new();
    while cur.remaining() > 0 {
        let at = cur.pos;
        let hdr = cur.u8().map_err(|e| format!("packet at {}: {}", at, e))?;
        let len = cur
            .varint()
            .map_err(|e| format!("packet at {}: remaining length: {}", at, e))?;
        let body = cur
            .take(len as usize)
            .map_err(|e| format!("packet at {} (header {:#04x}): {}", at, hdr, e))?;
        out.push((hdr, body));
    }
    Ok(out)
}

#[derive(Debug, PartialEq)]
struct Subscribe {
    packet_identifier: u16,
    subscription_identifier: Option<u32>,
    user_properties: Vec<(String, String)>,
    /// (topic filter, subscription options byte)
    filters: Vec<(String, u8)>,
}

fn decode_subscribe(hdr: u8, body: &[u8]) -> Result<Subscribe, String> {
    if hdr != 0x82 {
        return Err(format!("not a SUBSCRIBE fixed header: {:#04x}", hdr));
    }
    let mut cur = Cursor::new(body);
    let packet_identifier = cur.u16()?;

    let property_len = cur.varint()? as usize;
    let mut props = Cursor::new(cur.take(property_len)?);
    let mut subscription_identifier = None;
    let mut user_properties = Vec::new();
    while props.remaining() > 0 {
        match props.u8()? {
            0x0b => {
                if subscription_identifier.replace(props.varint()?).is_some() {
                    return Err("duplicate subscription identifier".into());
                }
            }
            0x26 => {
                let key = props.string()?;
                let val = props.string()?;
                user_properties.push((key, val));
            }
            other => return Err(format!("unexpected SUBSCRIBE property {:#04x}", other)),
        }
    }

    let mut filters = Vec::new();
    while cur.remaining() > 0 {
        let filter = cur.string()?;
        let opts = cur
            .u8()
            .map_err(|e| format!("filter {:?} has no options byte: {}", filter, e))?;
        if opts & 0xc0 != 0 {
            return Err(format!("reserved subscription option bits set: {:#04x}", opts));
        }
        filters.push((filter, opts));
    }
    if filters.is_empty() {
        return Err("SUBSCRIBE without topic filters".into());
    }

    Ok(Subscribe {
        packet_identifier,
        subscription_identifier,
        user_properties,
        filters,
    })
}

// ---------------------------------------------------------------------------------------------
// Scenario
// ---------------------------------------------------------------------------------------------

#[derive(Clone, Copy)]
struct Filter {
    topic: &'static str,
    qos: QoS,
    no_local: bool,
    retain_as_published: bool,
    retain_handling: RetainHandling,
}

impl Filter {
    const fn plain(topic: &'static str) -> Self {
        Self {
            topic,
            qos: QoS::ExactlyOnce,
            no_local: false,
            retain_as_published: false,
            retain_handling: RetainHandling::SendOnSubscribe,
        }
    }

    fn opts(&self) -> SubscriptionOpts {
        SubscriptionOpts::new()
            .maximum_qos(self.qos)
            .no_local(self.no_local)
            .retain_as_published(self.retain_as_published)
            .retain_handling(self.retain_handling)
    }

    /// Options byte as laid out by MQTT 5, 3.8.3.1.
    fn expected_byte(&self) -> u8 {
        let qos = match self.qos {
            QoS::AtMostOnce => 0,
            QoS::AtLeastOnce => 1,
            QoS::ExactlyOnce => 2,
        };
        let rh = match self.retain_handling {
            RetainHandling::SendOnSubscribe => 0,
            RetainHandling::SendIfNoSubscription => 1,
            RetainHandling::NoSendOnSubscribe => 2,
        };
        qos | ((self.no_local as u8) << 2) | ((self.retain_as_published as u8) << 3) | (rh << 4)
    }
}

/// Connects, submits one SUBSCRIBE with the given filters and user properties, answers it with a
/// SUBACK once the client has stopped writing, and returns everything the client wrote.
fn run_scenario(
    filters: &[Filter],
    user_properties: &[(&'static str, &'static str)],
    chunk: usize,
    stutter: bool,
) -> Vec<u8> {
    let wire = Arc::new(Mutex::new(Wire::default()));
    // CONNACK, success, no properties.
    wire.lock()
        .unwrap()
        .inbound
        .extend([0x20u8, 0x03, 0x00, 0x00, 0x00]);

    let (mut ctx, handle): (Context<Rx, Tx>, ContextHandle) = Context::new();
    ctx.set_up((
        Rx(wire.clone()),
        Tx {
            wire: wire.clone(),
            chunk,
            stutter,
            calls: 0,
        },
    ));

    let waker = futures::task::noop_waker();
    let mut cx = TaskContext::from_waker(&waker);

    {
        let mut connect = Box::pin(ctx.connect(ConnectOpts::new().client_identifier("demo")));
        let mut spins = 0;
        loop {
            if let Poll::Ready(res) = connect.as_mut().poll(&mut cx) {
                res.expect("connect failed");
                break;
            }
            spins += 1;
            assert!(spins < 100_000, "connect did not finish");
        }
    }

    let mut opts = SubscribeOpts::new();
    for filter in filters {
        opts = opts.subscription(filter.topic, filter.opts());
    }
    for &(key, val) in user_properties {
        opts = opts.user_property((key, val));
    }

    let mut sub_handle = handle.clone();
    let mut subscribe = Box::pin(sub_handle.subscribe(opts));
    let mut run = Box::pin(ctx.run());

    let mut suback_sent = false;
    let mut last_len = wire.lock().unwrap().written.len();
    let connect_len = last_len;
    let mut idle = 0;
    let mut spins = 0;
    loop {
        if let Poll::Ready(res) = run.as_mut().poll(&mut cx) {
            panic!("context stopped early: {:?}", res.err().map(|e| e.to_string()));
        }
        if let Poll::Ready(res) = subscribe.as_mut().poll(&mut cx) {
            let rsp = res.expect("subscribe failed");
            assert_eq!(rsp.payload().len(), filters.len());
            break;
        }

        let len = wire.lock().unwrap().written.len();
        if len == last_len {
            idle += 1;
        } else {
            idle = 0;
            last_len = len;
        }

        // The client has written something after the CONNECT and has been quiet for a while:
        // the SUBSCRIBE is out, acknowledge it (packet identifier 1, one reason per filter).
        if !suback_sent && len > connect_len && idle >= 8 {
            let mut suback = vec![0x90, (3 + filters.len()) as u8, 0x00, 0x01, 0x00];
            suback.extend(filters.iter().map(|f| f.expected_byte() & 0x03));
            wire.lock().unwrap().inbound.extend(suback);
            suback_sent = true;
        }

        spins += 1;
        assert!(spins < 1_000_000, "subscribe did not finish");
    }

    drop(run);
    drop(subscribe);
    let out = wire.lock().unwrap().written.clone();
    out
}

fn check(filters: &[Filter], user_properties: &[(&'static str, &'static str)]) {
    for &(chunk, stutter) in &[(usize::MAX, false), (1, false), (7, true)] {
        let written = run_scenario(filters, user_properties, chunk, stutter);

        let packets = split_packets(&written).unwrap_or_else(|err| {
            panic!(
                "wire is not a concatenation of whole packets ({} filters, chunk {}): {}\nwire: {:02x?}",
                filters.len(),
                chunk,
                err,
                written
            )
        });

        assert_eq!(
            packets.len(),
            2,
            "expected exactly CONNECT + SUBSCRIBE for {} filters, got headers {:02x?}\nwire: {:02x?}",
            filters.len(),
            packets.iter().map(|(hdr, _)| *hdr).collect::<Vec<_>>(),
            written
        );
        assert_eq!(packets[0].0, 0x10, "first packet must be CONNECT");

        let (hdr, body) = packets[1];
        let decoded = decode_subscribe(hdr, body)
            .unwrap_or_else(|err| panic!("malformed SUBSCRIBE: {}\nwire: {:02x?}", err, written));

        let expected = Subscribe {
            packet_identifier: 1,
            subscription_identifier: Some(1),
            user_properties: user_properties
                .iter()
                .map(|(k, v)| (k.to_string(), v.to_string()))
                .collect(),
            filters: filters
                .iter()
                .map(|f| (f.topic.to_string(), f.expected_byte()))
                .collect(),
        };
        assert_eq!(decoded, expected);
    }
}

// ---------------------------------------------------------------------------------------------
// Tests
// ---------------------------------------------------------------------------------------------

#[test]
fn subscribe_single_filter() {
    check(&[Filter::plain("a/b")], &[]);
    check(
        &[Filter {
            topic: "sensors/+/temp",
            qos: QoS::AtLeastOnce,
            no_local: true,
            retain_as_published: true,
            retain_handling: RetainHandling::NoSendOnSubscribe,
        }],
        &[("k", "v")],
    );
}

#[test]
fn subscribe_two_filters() {
    check(&[Filter::plain("topic1"), Filter::plain("topic2")], &[]);
}

#[test]
fn subscribe_many_filters_with_options_and_user_properties() {
    let filters = [
        Filter {
            topic: "a/#",
            qos: QoS::AtMostOnce,
            no_local: true,
            retain_as_published: false,
            retain_handling: RetainHandling::SendIfNoSubscription,
        },
        Filter {
            topic: "x",
            qos: QoS::AtLeastOnce,
            no_local: false,
            retain_as_published: true,
            retain_handling: RetainHandling::NoSendOnSubscribe,
        },
        Filter {
            topic: "$share/group/b/+/c",
            qos: QoS::ExactlyOnce,
            no_local: true,
            retain_as_published: true,
            retain_handling: RetainHandling::SendOnSubscribe,
        },
        Filter::plain("d"),
    ];
    check(&filters, &[("first", "1"), ("", ""), ("first", "again")]);
}
