//! Demonstration for property C01: the PUBLISH packet written must carry exactly the
//! message expiry interval the caller supplied.
//!
//! Uses only the public API, an in-memory scripted transport and an independent
//! (hand written) decoder of the bytes that reached the wire.

use core::{
    pin::Pin,
    task::{Context as TaskContext, Poll},
    time::Duration,
};
use futures::{executor::block_on, future, AsyncRead, AsyncWrite};
use poster::{ConnectOpts, Context, DisconnectOpts, PublishOpts};
use std::{
    io,
    sync::{Arc, Mutex},
};

/// Read half: hands out the scripted bytes, then stays silent (Pending) forever.
struct ScriptedRx {
    data: Vec<u8>,
    pos: usize,
}

impl AsyncRead for ScriptedRx {
    fn poll_read(
        mut self: Pin<&mut Self>,
        _cx: &mut TaskContext<'_>,
        buf: &mut [u8],
    ) -> Poll<io::Result<usize>> {
        if self.pos == self.data.len() {
            return Poll::Pending;
        }
        let n = buf.len().min(self.data.len() - self.pos);
        let pos = self.pos;
        buf[..n].copy_from_slice(&self.data[pos..pos + n]);
        self.pos += n;
        Poll::Ready(Ok(n))
    }
}

/// Write half: records everything, accepting at most 3 bytes per call.
#[derive(Clone)]
struct RecordingTx {
    wire: Arc<Mutex<Vec<u8>>>,
}

impl AsyncWrite for RecordingTx {
    fn poll_write(
        self: Pin<&mut Self>,
        _cx: &mut TaskContext<'_>,
        buf: &[u8],
    ) -> Poll<io::Result<usize>> {
        let n = buf.len().min(3);
        self.wire.lock().unwrap().extend_from_slice(&buf[..n]);
        Poll::Ready(Ok(n))
    }

    fn poll_flush(self: Pin<&mut Self>, _cx: &mut TaskContext<'_>) -> Poll<io::Result<()>> {
        Poll::Ready(Ok(()))
    }

    fn poll_close(self: Pin<&mut Self>, _cx: &mut TaskContext<'_>) -> Poll<io::Result<()>> {
        Poll::Ready(Ok(()))
    }
}

// ---- independent decoder ---------------------------------------------------------------------

fn var_int(bytes: &[u8], pos: &mut usize) -> usize {
    let mut val = 0usize;
    let mut shift = 0;
    loop {
        let b = bytes[*pos];
        *pos += 1;
        val |= ((b & 0x7f) as usize) << shift;
        if b & 0x80 == 0 {
            return val;
        }
        shift += 7;
        assert!(shift <= 21, "malformed variable byte integer");
    }
}

/// Splits the wire into whole control packets (fixed header byte, body).
fn split_packets(wire: &[u8]) -> Vec<(u8, Vec<u8>)> {
    let mut packets = Vec::new();
    let mut pos = 0;
    while pos < wire.len() {
        let hdr = wire[pos];
        pos += 1;
        let len = var_int(wire, &mut pos);
        assert!(pos + len <= wire.len(), "truncated packet on the wire");
        packets.push((hdr, wire[pos..pos + len].to_vec()));
        pos += len;
    }
    packets
}

/// Decoded QoS 0 PUBLISH: (topic, message expiry interval, payload).
fn decode_publish_qos0(hdr: u8, body: &[u8]) -> (String, Option<u32>, Vec<u8>) {
    assert_eq!(hdr >> 4, 3, "not a PUBLISH");
    assert_eq!((hdr >> 1) & 0x3, 0, "expected QoS 0");

    let mut pos = 0;
    let topic_len = u16::from_be_bytes([body[0], body[1]]) as usize;
    pos += 2;
    let topic = String::from_utf8(body[pos..pos + topic_len].to_vec()).unwrap();
    pos += topic_len;

    let prop_len = var_int(body, &mut pos);
    let prop_end = pos + prop_len;
    assert!(prop_end <= body.len(), "property length exceeds the packet");

    let mut expiry = None;
    while pos < prop_end {
        let id = body[pos];
        pos += 1;
        match id {
            0x02 => {
                assert!(expiry.is_none(), "message expiry interval included twice");
                expiry = Some(u32::from_be_bytes([
                    body[pos],
                    body[pos + 1],
                    body[pos + 2],
                    body[pos + 3],
                ]));
                pos += 4;
            }
            other => panic!("property {other:#04x} was not requested by the caller"),
        }
    }
    assert_eq!(pos, prop_end);

    (topic, expiry, body[pos..].to_vec())
}

// ---- scenario --------------------------------------------------------------------------------

/// Connects, publishes one QoS 0 message with the given expiry, disconnects;
/// returns the expiry interval found in the PUBLISH on the wire.
fn published_expiry(secs: u32) -> Option<u32> {
    let wire = Arc::new(Mutex::new(Vec::new()));
    let rx = ScriptedRx {
        data: vec![0x20, 0x03, 0x00, 0x00, 0x00], // CONNACK, success, no properties
        pos: 0,
    };
    let tx = RecordingTx { wire: wire.clone() };

    let (mut ctx, mut handle) = Context::new();

    block_on(async {
        ctx.set_up((rx, tx));
        ctx.connect(ConnectOpts::new().client_identifier("seed"))
            .await
            .expect("connect");

        let client = async {
            handle
                .publish(
                    PublishOpts::new()
                        .topic_name("a/b")
                        .message_expiry_interval(Duration::from_secs(u64::from(secs)))
                        .payload(b"xyz"),
                )
                .await
                .expect("publish");
            handle
                .disconnect(DisconnectOpts::new())
                .await
                .expect("disconnect");
        };

        let (run_result, ()) = future::join(ctx.run(), client).await;
        run_result.expect("run");
    });

    let wire = wire.lock().unwrap().clone();
    let packets = split_packets(&wire);
    assert_eq!(packets.len(), 3, "CONNECT, PUBLISH, DISCONNECT expected");
    assert_eq!(packets[0].0 >> 4, 1);
    assert_eq!(packets[2].0 >> 4, 14);

    let (topic, expiry, payload) = decode_publish_qos0(packets[1].0, &packets[1].1);
    assert_eq!(topic, "a/b");
    assert_eq!(payload, b"xyz");
    expiry
}

#[test]
fn message_expiry_interval_is_written_as_supplied() {
    for secs in [
        0u32,
        1,
        3600,
        16_777_216,
        16_777_217, // 2^24 + 1
        31_536_001, // one year and a second
        1_000_000_001,
        u32::MAX - 1,
        u32::MAX,
    ] {
        assert_eq!(
            published_expiry(secs),
            Some(secs),
            "message expiry interval of {secs}s was not written as supplied"
        );
    }
}
