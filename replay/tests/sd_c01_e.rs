//! C01 demonstration: the Subscription Options byte of every topic filter in a SUBSCRIBE packet
//! must carry exactly the maximum QoS / No Local / Retain As Published / Retain Handling values
//! the caller supplied, no matter in which order the `SubscriptionOpts` setters were called.
//!
//! Only the public API is used; the transport is an in-memory scripted broker.

use futures::{
    executor::block_on,
    io::{AsyncRead, AsyncWrite},
};
use poster::{
    ConnectOpts, Context, DisconnectOpts, QoS, RetainHandling, SubscribeOpts, SubscriptionOpts,
};
use std::{
    collections::VecDeque,
    io,
    pin::Pin,
    sync::{Arc, Mutex},
    task::{Context as TaskCx, Poll, Waker},
};

// ---------------------------------------------------------------------------------------------
// In-memory transport: everything the client writes is logged; every complete SUBSCRIBE packet
// is answered with a SUBACK (one "granted QoS 0" reason per topic filter).
// ---------------------------------------------------------------------------------------------

#[derive(Default)]
struct Wire {
    written: Vec<u8>,  // everything the client wrote, in order
    answered: usize,   // prefix of `written` already examined by the scripted broker
    inbound: VecDeque<u8>, // bytes the client has yet to read
    reader: Option<Waker>,
}

/// Decodes a Variable Byte Integer, returns (value, encoded length).
fn varint(buf: &[u8]) -> Option<(usize, usize)> {
    let mut val = 0usize;
    for (i, b) in buf.iter().take(4).enumerate() {
        val |= ((b & 0x7f) as usize) << (7 * i);
        if b & 0x80 == 0 {
            return Some((val, i + 1));
        }
    }
    None
}

/// Splits the next whole control packet off `buf`: (first byte, body, total length).
fn next_packet(buf: &[u8]) -> Option<(u8, &[u8], usize)> {
    let (&hdr, rest) = buf.split_first()?;
    let (remaining, n) = varint(rest)?;
    let body = rest.get(n..n + remaining)?;
    Some((hdr, body, 1 + n + remaining))
}

struct Subscribe {
    packet_id: u16,
    /// (topic filter, subscription options byte)
    filters: Vec<(String, u8)>,
}

/// Independent SUBSCRIBE body decoder.
fn decode_subscribe(body: &[u8]) -> Subscribe {
    let packet_id = u16::from_be_bytes([body[0], body[1]]);
    let (prop_len, n) = varint(&body[2..]).expect("property length");
    let mut rest = &body[2 + n + prop_len..];
    let mut filters = Vec::new();
    while !rest.is_empty() {
        let len = u16::from_be_bytes([rest[0], rest[1]]) as usize;
        let topic = String::from_utf8(rest[2..2 + len].to_vec()).expect("utf8 topic filter");
        filters.push((topic, rest[2 + len]));
        rest = &rest[3 + len..];
    }
    Subscribe { packet_id, filters }
}

impl Wire {
    fn serve(&mut self) {
        while let Some((hdr, body, total)) = next_packet(&self.written[self.answered..]) {
            if hdr == 0x82 {
                let sub = decode_subscribe(body);
                let mut suback = vec![0x90, (3 + sub.filters.len()) as u8];
                suback.extend_from_slice(&sub.packet_id.to_be_bytes());
                suback.push(0x00); // no properties
                suback.extend(sub.filters.iter().map(|_| 0x00u8));
                self.inbound.extend(suback);
            }
            self.answered += total;
        }
        if !self.inbound.is_empty() {
            if let Some(waker) = self.reader.take() {
                waker.wake();
            }
        }
    }
}

#[derive(Clone)]
struct Rx(Arc<Mutex<Wire>>);
#[derive(Clone)]
struct Tx(Arc<Mutex<Wire>>);

impl AsyncRead for Rx {
    fn poll_read(
        self: Pin<&mut Self>,
        cx: &mut TaskCx<'_>,
        buf: &mut [u8],
    ) -> Poll<io::Result<usize>> {
        let mut wire = self.0.lock().unwrap();
        if wire.inbound.is_empty() {
            wire.reader = Some(cx.waker().clone());
            return Poll::Pending;
        }
        let n = buf.len().min(wire.inbound.len());
        for slot in buf.iter_mut().take(n) {
            *slot = wire.inbound.pop_front().unwrap();
        }
        Poll::Ready(Ok(n))
    }
}

impl AsyncWrite for Tx {
    fn poll_write(
        self: Pin<&mut Self>,
        _: &mut TaskCx<'_>,
        buf: &[u8],
    ) -> Poll<io::Result<usize>> {
        let mut wire = self.0.lock().unwrap();
        wire.written.extend_from_slice(buf);
        wire.serve();
        Poll::Ready(Ok(buf.len()))
    }

    fn poll_flush(self: Pin<&mut Self>, _: &mut TaskCx<'_>) -> Poll<io::Result<()>> {
        Poll::Ready(Ok(()))
    }

    fn poll_close(self: Pin<&mut Self>, _: &mut TaskCx<'_>) -> Poll<io::Result<()>> {
        Poll::Ready(Ok(()))
    }
}

// ---------------------------------------------------------------------------------------------
// The request space: every order of the four SubscriptionOpts setters.
// ---------------------------------------------------------------------------------------------

#[derive(Clone, Copy)]
struct Values {
    qos: QoS,
    no_local: bool,
    retain_as_published: bool,
    retain_handling: RetainHandling,
}

impl Values {
    /// The byte MQTT 5 (3.8.3.1) assigns to these values.
    fn wire_byte(&self) -> u8 {
        (self.qos as u8)
            | ((self.no_local as u8) << 2)
            | ((self.retain_as_published as u8) << 3)
            | ((self.retain_handling as u8) << 4)
    }

    fn apply(&self, opts: SubscriptionOpts, setter: usize) -> SubscriptionOpts {
        match setter {
            0 => opts.maximum_qos(self.qos),
            1 => opts.no_local(self.no_local),
            2 => opts.retain_as_published(self.retain_as_published),
            3 => opts.retain_handling(self.retain_handling),
            _ => unreachable!(),
        }
    }
}

fn permutations(items: &[usize]) -> Vec<Vec<usize>> {
    if items.len() <= 1 {
        return vec![items.to_vec()];
    }
    let mut out = Vec::new();
    for i in 0..items.len() {
        let mut rest = items.to_vec();
        let head = rest.remove(i);
        for mut tail in permutations(&rest) {
            tail.insert(0, head);
            out.push(tail);
        }
    }
    out
}

#[test]
fn subscription_options_are_carried_whatever_the_setter_order() {
    let value_sets = [
        Values {
            qos: QoS::AtLeastOnce,
            no_local: true,
            retain_as_published: true,
            retain_handling: RetainHandling::NoSendOnSubscribe,
        },
        Values {
            qos: QoS::AtMostOnce,
            no_local: false,
            retain_as_published: true,
            retain_handling: RetainHandling::SendIfNoSubscription,
        },
        Values {
            qos: QoS::ExactlyOnce,
            no_local: true,
            retain_as_published: false,
            retain_handling: RetainHandling::SendOnSubscribe,
        },
    ];
    let orders = permutations(&[0, 1, 2, 3]);
    assert_eq!(orders.len(), 24);

    // One SUBSCRIBE request per value set, one topic filter per setter order.
    let topics: Vec<Vec<String>> = (0..value_sets.len())
        .map(|v| {
            orders
                .iter()
                .map(|o| format!("v{}/o{}{}{}{}", v, o[0], o[1], o[2], o[3]))
                .collect()
        })
        .collect();

    let wire = Arc::new(Mutex::new(Wire::default()));
    // CONNACK, success, no properties.
    wire.lock()
        .unwrap()
        .inbound
        .extend([0x20u8, 0x03, 0x00, 0x00, 0x00]);

    let (mut ctx, mut handle) = Context::new();
    ctx.set_up((Rx(wire.clone()), Tx(wire.clone())));

    block_on(async {
        ctx.connect(ConnectOpts::new().client_identifier("seed-demo"))
            .await
            .expect("connect");

        let client = async {
            for (v, values) in value_sets.iter().enumerate() {
                let mut opts = SubscribeOpts::new();
                for (o, order) in orders.iter().enumerate() {
                    let mut sub = SubscriptionOpts::new();
                    for &setter in order {
                        sub = values.apply(sub, setter);
                    }
                    opts = opts.subscription(&topics[v][o], sub);
                }
                handle.subscribe(opts).await.expect("subscribe");
            }
            handle
                .disconnect(DisconnectOpts::new())
                .await
                .expect("disconnect");
        };

        let (run, ()) = futures::join!(ctx.run(), client);
        run.expect("run");
    });

    // Decode the wire independently.
    let written = wire.lock().unwrap().written.clone();
    let mut rest = &written[..];
    let mut subscribes = Vec::new();
    let mut kinds = Vec::new();
    while !rest.is_empty() {
        let (hdr, body, total) = next_packet(rest).expect("wire is a sequence of whole packets");
        kinds.push(hdr);
        if hdr == 0x82 {
            subscribes.push(decode_subscribe(body));
        }
        rest = &rest[total..];
    }
    assert_eq!(kinds, [0x10, 0x82, 0x82, 0x82, 0xe0], "packets in submission order");

    let mut wrong = Vec::new();
    for (v, values) in value_sets.iter().enumerate() {
        let sub = &subscribes[v];
        assert_eq!(sub.filters.len(), orders.len());
        for (o, order) in orders.iter().enumerate() {
            let (topic, byte) = &sub.filters[o];
            assert_eq!(topic, &topics[v][o]);
            if *byte != values.wire_byte() {
                wrong.push(format!(
                    "value set {} setter order {:?}: options byte {:#04x}, expected {:#04x}",
                    v,
                    order,
                    byte,
                    values.wire_byte()
                ));
            }
        }
    }
    assert!(
        wrong.is_empty(),
        "subscription options not carried to the wire:\n{}",
        wrong.join("\n")
    );
}
