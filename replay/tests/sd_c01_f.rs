//! Demonstration for property C01 (CONNECT is well-formed and carries the caller's options).
//!
//! A CONNECT carrying a will message with will user properties, together with CONNECT-level
//! user properties of a different total size, is written to an in-memory transport and
//! decoded with a small independent decoder.

use futures::{executor::block_on, AsyncRead, AsyncWrite};
use poster::{ConnectOpts, Context, QoS};
use std::{
    cell::RefCell,
    io,
    pin::Pin,
    rc::Rc,
    task::{Context as TaskCx, Poll},
};

// ---------------------------------------------------------------- transport

struct ScriptedRx {
    data: Vec<u8>,
    pos: usize,
}

impl AsyncRead for ScriptedRx {
    fn poll_read(
        mut self: Pin<&mut Self>,
        _cx: &mut TaskCx<'_>,
        buf: &mut [u8],
    ) -> Poll<io::Result<usize>> {
        let n = buf.len().min(self.data.len() - self.pos);
        let pos = self.pos;
        buf[..n].copy_from_slice(&self.data[pos..pos + n]);
        self.pos += n;
        Poll::Ready(Ok(n)) // 0 == EOF once the script is exhausted
    }
}

/// Accepts at most `chunk` bytes per call and returns Pending every other call.
struct RecordingTx {
    wire: Rc<RefCell<Vec<u8>>>,
    chunk: usize,
    stall: bool,
}

impl AsyncWrite for RecordingTx {
    fn poll_write(
        mut self: Pin<&mut Self>,
        cx: &mut TaskCx<'_>,
        buf: &[u8],
    ) -> Poll<io::Result<usize>> {
        self.stall = !self.stall;
        if self.stall {
            cx.waker().wake_by_ref();
            return Poll::Pending;
        }
        let n = buf.len().min(self.chunk);
        self.wire.borrow_mut().extend_from_slice(&buf[..n]);
        Poll::Ready(Ok(n))
    }

    fn poll_flush(self: Pin<&mut Self>, _cx: &mut TaskCx<'_>) -> Poll<io::Result<()>> {
        Poll::Ready(Ok(()))
    }

    fn poll_close(self: Pin<&mut Self>, _cx: &mut TaskCx<'_>) -> Poll<io::Result<()>> {
        Poll::Ready(Ok(()))
    }
}

// ---------------------------------------------------------------- independent decoder

struct Cur<'a> {
    buf: &'a [u8],
    pos: usize,
}

impl<'a> Cur<'a> {
    fn new(buf: &'a [u8]) -> Self {
        Self { buf, pos: 0 }
    }
    fn left(&self) -> usize {
        self.buf.len() - self.pos
    }
    fn take(&mut self, n: usize) -> Result<&'a [u8], String> {
        if self.left() < n {
            return Err(format!("need {} bytes at {}, have {}", n, self.pos, self.left()));
        }
        let s = &self.buf[self.pos..self.pos + n];
        self.pos += n;
        Ok(s)
    }
    fn u8(&mut self) -> Result<u8, String> {
        Ok(self.take(1)?[0])
    }
    fn u16(&mut self) -> Result<u16, String> {
        let b = self.take(2)?;
        Ok(u16::from_be_bytes([b[0], b[1]]))
    }
    fn u32(&mut self) -> Result<u32, String> {
        let b = self.take(4)?;
        Ok(u32::from_be_bytes([b[0], b[1], b[2], b[3]]))
    }
    fn varint(&mut self) -> Result<usize, String> {
        let mut val = 0usize;
        for i in 0..4 {
            let b = self.u8()?;
            val |= ((b & 0x7f) as usize) << (7 * i);
            if b & 0x80 == 0 {
                return Ok(val);
            }
        }
        Err("variable byte integer longer than 4 bytes".into())
    }
    fn bin(&mut self) -> Result<Vec<u8>, String> {
        let n = self.u16()? as usize;
        Ok(self.take(n)?.to_vec())
    }
    fn string(&mut self) -> Result<String, String> {
        String::from_utf8(self.bin()?).map_err(|e| e.to_string())
    }
}

#[derive(Debug, PartialEq, Eq)]
enum Prop {
    U8(u8, u8),
    U16(u8, u16),
    U32(u8, u32),
    Str(u8, String),
    Bin(u8, Vec<u8>),
    User(String, String),
}

fn props(cur: &mut Cur<'_>, allowed: &[u8]) -> Result<Vec<Prop>, String> {
    let len = cur.varint()?;
    let body = cur.take(len)?;
    let mut c = Cur::new(body);
    let mut out = Vec::new();
    while c.left() > 0 {
        let id = c.u8()?;
        if !allowed.contains(&id) {
            return Err(format!("property 0x{:02x} not allowed here", id));
        }
        out.push(match id {
            0x01 | 0x17 | 0x19 => Prop::U8(id, c.u8()?),
            0x21 | 0x22 => Prop::U16(id, c.u16()?),
            0x02 | 0x11 | 0x18 | 0x27 => Prop::U32(id, c.u32()?),
            0x03 | 0x08 | 0x15 => Prop::Str(id, c.string()?),
            0x09 | 0x16 => Prop::Bin(id, c.bin()?),
            0x26 => Prop::User(c.string()?, c.string()?),
            _ => return Err(format!("unknown property 0x{:02x}", id)),
        });
    }
    Ok(out)
}

#[derive(Debug, PartialEq, Eq, Default)]
struct Connect {
    flags: u8,
    keep_alive: u16,
    props: Vec<Prop>,
    client_id: String,
    will_props: Vec<Prop>,
    will_topic: Option<String>,
    will_payload: Option<Vec<u8>>,
    username: Option<String>,
    password: Option<Vec<u8>>,
}

/// Decodes the whole wire, which must be exactly one CONNECT packet.
fn decode_connect(wire: &[u8]) -> Result<Connect, String> {
    let mut outer = Cur::new(wire);
    if outer.u8()? != 0x10 {
        return Err("first byte is not the CONNECT fixed header".into());
    }
    let remaining = outer.varint()?;
    if outer.left() != remaining {
        return Err(format!(
            "remaining length says {} but {} bytes follow",
            remaining,
            outer.left()
        ));
    }
    let mut c = Cur::new(outer.take(remaining)?);

    if c.string()? != "MQTT" {
        return Err("bad protocol name".into());
    }
    if c.u8()? != 5 {
        return Err("bad protocol version".into());
    }
    let flags = c.u8()?;
    if flags & 1 != 0 {
        return Err("reserved connect flag set".into());
    }
    let keep_alive = c.u16()?;
    let props_ = props(
        &mut c,
        &[0x11, 0x21, 0x27, 0x22, 0x19, 0x17, 0x15, 0x16, 0x26],
    )?;
    let client_id = c.string()?;

    let mut out = Connect {
        flags,
        keep_alive,
        props: props_,
        client_id,
        ..Default::default()
    };

    if flags & 0x04 != 0 {
        out.will_props = props(&mut c, &[0x18, 0x01, 0x02, 0x03, 0x08, 0x09, 0x26])?;
        out.will_topic = Some(c.string()?);
        out.will_payload = Some(c.bin()?);
    } else if flags & 0x38 != 0 {
        return Err("will qos/retain set without will flag".into());
    }
    if flags & 0x80 != 0 {
        out.username = Some(c.string()?);
    }
    if flags & 0x40 != 0 {
        out.password = Some(c.bin()?);
    }
    if c.left() != 0 {
        return Err(format!("{} trailing bytes inside CONNECT", c.left()));
    }
    Ok(out)
}

// ---------------------------------------------------------------- driver

fn connect_and_capture(opts: ConnectOpts<'_>, chunk: usize) -> Vec<u8> {
    let wire = Rc::new(RefCell::new(Vec::new()));
    let rx = ScriptedRx {
        data: vec![0x20, 0x03, 0x00, 0x00, 0x00],
        pos: 0,
    };
    let tx = RecordingTx {
        wire: wire.clone(),
        chunk,
        stall: false,
    };

    let (mut ctx, _handle) = Context::new();
    ctx.set_up((rx, tx));
    let rsp = block_on(ctx.connect(opts));
    assert!(rsp.is_ok(), "connect failed: {:?}", rsp.err());

    let bytes = wire.borrow().clone();
    bytes
}

fn user(k: &str, v: &str) -> Prop {
    Prop::User(k.into(), v.into())
}

/// Baseline: a will without any user properties on either level.
#[test]
fn connect_with_plain_will() {
    let opts = ConnectOpts::new()
        .client_identifier("cid")
        .clean_start(true)
        .keep_alive(std::time::Duration::from_secs(30))
        .will_topic("last/words")
        .will_payload(b"bye")
        .will_qos(QoS::AtLeastOnce)
        .will_retain(true)
        .will_content_type("text/plain")
        .username("u")
        .password(b"p");

    let wire = connect_and_capture(opts, 3);
    let got = decode_connect(&wire).expect("CONNECT must be well-formed");

    assert_eq!(
        got,
        Connect {
            flags: 0x80 | 0x40 | 0x20 | (1 << 3) | 0x04 | 0x02,
            keep_alive: 30,
            props: vec![],
            client_id: "cid".into(),
            will_props: vec![Prop::Str(0x03, "text/plain".into())],
            will_topic: Some("last/words".into()),
            will_payload: Some(b"bye".to_vec()),
            username: Some("u".into()),
            password: Some(b"p".to_vec()),
        }
    );
}

/// A will that carries its own user properties, no CONNECT-level user properties.
#[test]
fn connect_with_will_user_properties_only() {
    let opts = ConnectOpts::new()
        .client_identifier("cid")
        .will_topic("last/words")
        .will_payload(b"bye")
        .will_user_property(("origin", "sensor-7"))
        .will_user_property(("k", ""));

    let wire = connect_and_capture(opts, 5);
    let got = decode_connect(&wire).expect("CONNECT must be well-formed");

    assert_eq!(got.flags, 0x04);
    assert_eq!(got.props, vec![]);
    assert_eq!(
        got.will_props,
        vec![user("origin", "sensor-7"), user("k", "")]
    );
    assert_eq!(got.will_topic.as_deref(), Some("last/words"));
    assert_eq!(got.will_payload.as_deref(), Some(&b"bye"[..]));
}

/// CONNECT-level user properties and will user properties of different sizes, plus
/// user name and password after the will section.
#[test]
fn connect_with_both_kinds_of_user_properties() {
    let opts = ConnectOpts::new()
        .client_identifier("cid")
        .user_property(("client", "demo"))
        .user_property(("build", "0123456789abcdef"))
        .will_topic("last/words")
        .will_payload(b"")
        .will_qos(QoS::ExactlyOnce)
        .will_delay_interval(std::time::Duration::from_secs(5))
        .will_user_property(("w", "1"))
        .username("user")
        .password(b"\x00\xff");

    let wire = connect_and_capture(opts, 1);
    let got = decode_connect(&wire).expect("CONNECT must be well-formed");

    assert_eq!(
        got,
        Connect {
            flags: 0x80 | 0x40 | (2 << 3) | 0x04,
            keep_alive: 0,
            props: vec![user("client", "demo"), user("build", "0123456789abcdef")],
            client_id: "cid".into(),
            will_props: vec![Prop::U32(0x18, 5), user("w", "1")],
            will_topic: Some("last/words".into()),
            will_payload: Some(vec![]),
            username: Some("user".into()),
            password: Some(vec![0x00, 0xff]),
        }
    );
}

/// CONNECT-level user properties with a will that has none of its own.
#[test]
fn connect_user_properties_with_will_without_user_properties() {
    let opts = ConnectOpts::new()
        .client_identifier("cid")
        .user_property(("client", "demo"))
        .will_topic("t")
        .will_payload(b"x");

    let wire = connect_and_capture(opts, 7);
    let got = decode_connect(&wire).expect("CONNECT must be well-formed");

    assert_eq!(got.props, vec![user("client", "demo")]);
    assert_eq!(got.will_props, vec![]);
    assert_eq!(got.will_topic.as_deref(), Some("t"));
    assert_eq!(got.will_payload.as_deref(), Some(&b"x"[..]));
}
