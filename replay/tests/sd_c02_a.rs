//! Demonstration for property C02 (well-formed inbound packets decode to exactly the values
//! the server sent).
//!
//! A scripted in-memory broker answers CONNECT with CONNACK and SUBSCRIBE with SUBACK, then
//! delivers two PUBLISH packets matching the subscription:
//!   1. a well-formed PUBLISH whose payload is empty (zero-length payloads are legal in MQTT 5),
//!   2. an ordinary PUBLISH with a one byte payload.
//! Both have to come out of the subscription stream with exactly the encoded values.

use futures::{
    executor::block_on,
    future::{self, Either},
    pin_mut, AsyncRead, AsyncWrite, StreamExt,
};
use poster::{ConnectOpts, Context, QoS, SubscribeOpts, SubscriptionOpts};
use std::{
    cell::RefCell,
    collections::VecDeque,
    io,
    pin::Pin,
    rc::Rc,
    task::{Context as TaskContext, Poll, Waker},
};

#[derive(Default)]
struct Wire {
    /// Bytes travelling from the scripted broker to the client.
    to_client: VecDeque<u8>,
    reader_waker: Option<Waker>,
    /// Every packet the client has written, for diagnostics.
    from_client: Vec<Vec<u8>>,
}

impl Wire {
    fn send(&mut self, bytes: &[u8]) {
        self.to_client.extend(bytes.iter().copied());
        if let Some(waker) = self.reader_waker.take() {
            waker.wake();
        }
    }
}

struct BrokerRx(Rc<RefCell<Wire>>);
struct BrokerTx(Rc<RefCell<Wire>>);

impl AsyncRead for BrokerRx {
    fn poll_read(
        self: Pin<&mut Self>,
        cx: &mut TaskContext<'_>,
        buf: &mut [u8],
    ) -> Poll<io::Result<usize>> {
        let mut wire = self.0.borrow_mut();
        if wire.to_client.is_empty() {
            wire.reader_waker = Some(cx.waker().clone());
            return Poll::Pending;
        }

        let n = buf.len().min(wire.to_client.len());
        for slot in buf.iter_mut().take(n) {
            *slot = wire.to_client.pop_front().unwrap();
        }
        Poll::Ready(Ok(n))
    }
}

const TOPIC: &str = "a/b";

fn publish_packet(subscription_identifier: u8, payload: &[u8]) -> Vec<u8> {
    let mut variable = Vec::new();
    variable.extend_from_slice(&(TOPIC.len() as u16).to_be_bytes());
    variable.extend_from_slice(TOPIC.as_bytes());
    variable.push(2); // Property length
    variable.push(0x0b); // Subscription Identifier
    variable.push(subscription_identifier);
    variable.extend_from_slice(payload);

    assert!(variable.len() < 128);
    let mut packet = vec![0x30, variable.len() as u8]; // PUBLISH, QoS 0, no DUP, no RETAIN
    packet.extend_from_slice(&variable);
    packet
}

impl AsyncWrite for BrokerTx {
    fn poll_write(
        self: Pin<&mut Self>,
        _cx: &mut TaskContext<'_>,
        buf: &[u8],
    ) -> Poll<io::Result<usize>> {
        let mut wire = self.0.borrow_mut();
        wire.from_client.push(buf.to_vec());

        match buf[0] >> 4 {
            // CONNECT -> CONNACK, success, no properties
            1 => wire.send(&[0x20, 0x03, 0x00, 0x00, 0x00]),
            // SUBSCRIBE -> SUBACK (granted QoS 0), then the two messages
            8 => {
                let (id_msb, id_lsb) = (buf[2], buf[3]);
                wire.send(&[0x90, 0x04, id_msb, id_lsb, 0x00, 0x00]);
                // The first subscription made through a fresh handle gets Subscription Identifier 1.
                wire.send(&publish_packet(1, &[]));
                wire.send(&publish_packet(1, b"x"));
            }
            _ => {}
        }

        Poll::Ready(Ok(buf.len()))
    }

    fn poll_flush(self: Pin<&mut Self>, _cx: &mut TaskContext<'_>) -> Poll<io::Result<()>> {
        Poll::Ready(Ok(()))
    }

    fn poll_close(self: Pin<&mut Self>, _cx: &mut TaskContext<'_>) -> Poll<io::Result<()>> {
        Poll::Ready(Ok(()))
    }
}

#[test]
fn publish_with_empty_payload_is_delivered_unchanged() {
    let wire = Rc::new(RefCell::new(Wire::default()));
    let (mut ctx, mut handle) = Context::new();
    ctx.set_up((BrokerRx(wire.clone()), BrokerTx(wire.clone())));

    block_on(async {
        ctx.connect(ConnectOpts::new())
            .await
            .expect("CONNACK is accepted");

        let run = ctx.run();
        let client = async {
            let rsp = handle
                .subscribe(SubscribeOpts::new().subscription(TOPIC, SubscriptionOpts::new()))
                .await
                .expect("SUBACK is accepted");
            assert_eq!(rsp.payload().len(), 1);

            let mut stream = rsp.stream();

            let first = stream.next().await.expect("first message");
            assert_eq!(first.topic_name(), TOPIC);
            assert_eq!(first.qos(), QoS::AtMostOnce);
            assert!(!first.dup());
            assert!(!first.retain());
            assert_eq!(first.payload(), &[] as &[u8]);
            assert!(first.content_type().is_none());
            assert!(first.user_properties().is_empty());

            let second = stream.next().await.expect("second message");
            assert_eq!(second.topic_name(), TOPIC);
            assert_eq!(second.payload(), b"x");
        };

        pin_mut!(run, client);
        match future::select(run, client).await {
            Either::Left((result, _)) => panic!(
                "run() ended before both well-formed PUBLISH packets were delivered: {:?}",
                result
            ),
            Either::Right(((), _)) => {}
        }
    });
}
