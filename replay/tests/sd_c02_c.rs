//! Demonstration for property C02 (well-formed inbound packets decode to exactly the values the
//! server sent): a User Property whose value is the empty string is legal, and it stays legal
//! when it happens to be the very last thing in the property section of a packet.
//!
//! Every test drives the public API only (`Context`, `ContextHandle`, `*Opts`) over an in-memory
//! scripted transport.

use futures::{
    executor::block_on,
    future::{self, Either as FutEither},
    io::{AsyncRead, AsyncWrite},
};
use poster::{
    error::MqttError,
    prelude::Either,
    reason::{DisconnectReason, SubackReason, UnsubackReason},
    ConnectOpts, Context, SubscribeOpts, SubscriptionOpts, UnsubscribeOpts,
};
use std::{
    collections::VecDeque,
    io,
    pin::Pin,
    sync::{Arc, Mutex},
    task::{Context as TaskContext, Poll, Waker},
};

// ---------------------------------------------------------------------------------------------
// Scripted in-memory transport
// ---------------------------------------------------------------------------------------------

#[derive(Default)]
struct Shared {
    inbound: VecDeque<u8>,
    waker: Option<Waker>,
}

struct Rx(Arc<Mutex<Shared>>);

impl AsyncRead for Rx {
    fn poll_read(
        self: Pin<&mut Self>,
        cx: &mut TaskContext<'_>,
        buf: &mut [u8],
    ) -> Poll<io::Result<usize>> {
        let mut shared = self.0.lock().unwrap();
        if shared.inbound.is_empty() {
            shared.waker = Some(cx.waker().clone());
            return Poll::Pending;
        }

        let n = buf.len().min(shared.inbound.len());
        for slot in buf.iter_mut().take(n) {
            *slot = shared.inbound.pop_front().unwrap();
        }
        Poll::Ready(Ok(n))
    }
}

/// The "server": every packet the client writes is handed to `script`, whatever it returns is
/// what the client reads next.
struct Tx {
    shared: Arc<Mutex<Shared>>,
    script: Box<dyn FnMut(&[u8]) -> Vec<u8> + Send>,
}

impl AsyncWrite for Tx {
    fn poll_write(
        mut self: Pin<&mut Self>,
        _cx: &mut TaskContext<'_>,
        buf: &[u8],
    ) -> Poll<io::Result<usize>> {
        let response = (self.script)(buf);
        if !response.is_empty() {
            let mut shared = self.shared.lock().unwrap();
            shared.inbound.extend(response);
            if let Some(waker) = shared.waker.take() {
                waker.wake();
            }
        }
        Poll::Ready(Ok(buf.len()))
    }

    fn poll_flush(self: Pin<&mut Self>, _cx: &mut TaskContext<'_>) -> Poll<io::Result<()>> {
        Poll::Ready(Ok(()))
    }

    fn poll_close(self: Pin<&mut Self>, _cx: &mut TaskContext<'_>) -> Poll<io::Result<()>> {
        Poll::Ready(Ok(()))
    }
}

fn transport(script: impl FnMut(&[u8]) -> Vec<u8> + Send + 'static) -> (Rx, Tx) {
    let shared = Arc::new(Mutex::new(Shared::default()));
    (
        Rx(shared.clone()),
        Tx {
            shared,
            script: Box::new(script),
        },
    )
}

// ---------------------------------------------------------------------------------------------
// Packet building helpers (plain MQTT 5 bytes)
// ---------------------------------------------------------------------------------------------

const CONNECT: u8 = 1;
const SUBSCRIBE: u8 = 8;
const UNSUBSCRIBE: u8 = 10;

const CONNACK_PLAIN: [u8; 5] = [0x20, 0x03, 0x00, 0x00, 0x00];

fn packet_type(packet: &[u8]) -> u8 {
    packet[0] >> 4
}

/// Packet identifier of a SUBSCRIBE/UNSUBSCRIBE the client wrote (short remaining length).
fn packet_id(packet: &[u8]) -> [u8; 2] {
    assert!(packet[1] < 0x80, "test packets are short");
    [packet[2], packet[3]]
}

fn utf8(s: &str) -> Vec<u8> {
    let mut out = (s.len() as u16).to_be_bytes().to_vec();
    out.extend_from_slice(s.as_bytes());
    out
}

fn user_property(key: &str, val: &str) -> Vec<u8> {
    let mut out = vec![38u8];
    out.extend(utf8(key));
    out.extend(utf8(val));
    out
}

fn reason_string(val: &str) -> Vec<u8> {
    let mut out = vec![31u8];
    out.extend(utf8(val));
    out
}

/// fixed header, remaining length (single byte), body
fn packet(fixed_hdr: u8, body: &[u8]) -> Vec<u8> {
    assert!(body.len() < 0x80);
    let mut out = vec![fixed_hdr, body.len() as u8];
    out.extend_from_slice(body);
    out
}

fn with_props(head: &[u8], props: &[u8], tail: &[u8]) -> Vec<u8> {
    assert!(props.len() < 0x80);
    let mut out = head.to_vec();
    out.push(props.len() as u8);
    out.extend_from_slice(props);
    out.extend_from_slice(tail);
    out
}

// ---------------------------------------------------------------------------------------------
// Tests
// ---------------------------------------------------------------------------------------------

/// CONNACK (success) whose only property is the user property ("k", "").
#[test]
fn connack_trailing_user_property_with_empty_value() {
    let connack = packet(
        0x20,
        &with_props(&[0x00, 0x00], &user_property("k", ""), &[]),
    );

    let (rx, tx) = transport(move |written| match packet_type(written) {
        CONNECT => connack.clone(),
        _ => Vec::new(),
    });

    let (mut ctx, _handle) = Context::new();
    ctx.set_up((rx, tx));

    let rsp = block_on(ctx.connect(ConnectOpts::new()));
    let rsp = match rsp {
        Ok(Either::Left(rsp)) => rsp,
        Ok(Either::Right(_)) => panic!("CONNACK was sent, not AUTH"),
        Err(err) => panic!("well-formed CONNACK was rejected: {}", err),
    };

    assert_eq!(rsp.user_properties().len(), 1);
    assert_eq!(
        rsp.user_properties().iter().collect::<Vec<_>>(),
        [("k", "")]
    );
}

/// The same pair is fine when something else follows it; shows how specific the situation is.
#[test]
fn connack_user_property_with_empty_value_followed_by_reason_string() {
    let mut props = user_property("k", "");
    props.extend(reason_string("ok"));
    let connack = packet(0x20, &with_props(&[0x00, 0x00], &props, &[]));

    let (rx, tx) = transport(move |written| match packet_type(written) {
        CONNECT => connack.clone(),
        _ => Vec::new(),
    });

    let (mut ctx, _handle) = Context::new();
    ctx.set_up((rx, tx));

    let rsp = match block_on(ctx.connect(ConnectOpts::new())) {
        Ok(Either::Left(rsp)) => rsp,
        Ok(Either::Right(_)) => panic!("CONNACK was sent, not AUTH"),
        Err(err) => panic!("well-formed CONNACK was rejected: {}", err),
    };

    assert_eq!(
        rsp.user_properties().iter().collect::<Vec<_>>(),
        [("k", "")]
    );
    assert_eq!(rsp.reason_string(), Some("ok"));
}

/// SUBACK and UNSUBACK: repeated user properties, the last one with an empty value, then the
/// reason codes.
#[test]
fn suback_and_unsuback_trailing_user_property_with_empty_value() {
    let mut props = reason_string("fine");
    props.extend(user_property("a", "1"));
    props.extend(user_property("a", ""));

    let (rx, tx) = transport(move |written| match packet_type(written) {
        CONNECT => CONNACK_PLAIN.to_vec(),
        SUBSCRIBE => packet(0x90, &with_props(&packet_id(written), &props, &[0x01])),
        UNSUBSCRIBE => packet(0xb0, &with_props(&packet_id(written), &props, &[0x11])),
        _ => Vec::new(),
    });

    let (mut ctx, mut handle) = Context::new();
    ctx.set_up((rx, tx));

    block_on(async {
        ctx.connect(ConnectOpts::new())
            .await
            .expect("plain CONNACK is accepted");

        let client = async {
            let sub = handle
                .subscribe(
                    SubscribeOpts::new().subscription("t/1", SubscriptionOpts::new()),
                )
                .await;
            let unsub = handle
                .unsubscribe(UnsubscribeOpts::new().topic_filter("t/1"))
                .await;
            (sub, unsub)
        };

        let run = ctx.run();
        futures::pin_mut!(client, run);

        let (sub, unsub) = match future::select(client, run).await {
            FutEither::Left((results, _)) => results,
            FutEither::Right((run_result, _)) => {
                panic!(
                    "run() ended while serving well-formed packets: {:?}",
                    run_result.map_err(|err| err.to_string())
                )
            }
        };

        let sub = sub.expect("well-formed SUBACK is accepted");
        assert_eq!(sub.reason_string(), Some("fine"));
        assert_eq!(
            sub.user_properties().iter().collect::<Vec<_>>(),
            [("a", "1"), ("a", "")]
        );
        assert_eq!(sub.payload(), [SubackReason::GranteedQoS1]);

        let unsub = unsub.expect("well-formed UNSUBACK is accepted");
        assert_eq!(unsub.reason_string(), Some("fine"));
        assert_eq!(
            unsub.user_properties().iter().collect::<Vec<_>>(),
            [("a", "1"), ("a", "")]
        );
        assert_eq!(unsub.payload(), [UnsubackReason::NoSubscriptionExisted]);
    });
}

/// Server DISCONNECT (Server shutting down) with reason string and a trailing ("note", "").
#[test]
fn disconnect_trailing_user_property_with_empty_value() {
    let mut props = reason_string("bye");
    props.extend(user_property("note", ""));
    let disconnect = packet(0xe0, &with_props(&[0x8b], &props, &[]));

    let (rx, tx) = transport(move |written| match packet_type(written) {
        CONNECT => {
            let mut out = CONNACK_PLAIN.to_vec();
            out.extend_from_slice(&disconnect);
            out
        }
        _ => Vec::new(),
    });

    let (mut ctx, _handle) = Context::new();
    ctx.set_up((rx, tx));

    block_on(async {
        ctx.connect(ConnectOpts::new())
            .await
            .expect("plain CONNACK is accepted");

        match ctx.run().await {
            Err(MqttError::Disconnected(disconnected)) => {
                assert_eq!(disconnected.reason(), DisconnectReason::ServerShuttingDown);
                assert_eq!(disconnected.reason_string(), Some("bye"));
                assert_eq!(
                    disconnected.user_properties().iter().collect::<Vec<_>>(),
                    [("note", "")]
                );
            }
            other => panic!(
                "expected the server's DISCONNECT to be reported, got {:?}",
                other.map_err(|err| err.to_string())
            ),
        }
    });
}
