//! Demonstration for C02: a server DISCONNECT in the short form the standard allows
//! (remaining length 1: a reason code and no property length) must expose exactly the
//! reason code that was sent.

use futures::{executor::block_on, io::AsyncRead, io::AsyncWrite};
use poster::{
    error::MqttError,
    reason::DisconnectReason,
    ConnectOpts, Context,
};
use std::{
    collections::VecDeque,
    io,
    pin::Pin,
    task::{Context as TaskContext, Poll},
};

/// Scripted inbound half: hands out the prepared bytes, one chunk per read, then EOF.
struct ScriptedRx {
    chunks: VecDeque<Vec<u8>>,
}

impl AsyncRead for ScriptedRx {
    fn poll_read(
        mut self: Pin<&mut Self>,
        _cx: &mut TaskContext<'_>,
        buf: &mut [u8],
    ) -> Poll<io::Result<usize>> {
        match self.chunks.pop_front() {
            Some(mut chunk) => {
                let n = chunk.len().min(buf.len());
                buf[..n].copy_from_slice(&chunk[..n]);
                if n < chunk.len() {
                    let rest = chunk.split_off(n);
                    self.chunks.push_front(rest);
                }
                Poll::Ready(Ok(n))
            }
            None => Poll::Ready(Ok(0)),
        }
    }
}

/// Outbound half: swallows everything the client writes.
struct SinkTx;

impl AsyncWrite for SinkTx {
    fn poll_write(
        self: Pin<&mut Self>,
        _cx: &mut TaskContext<'_>,
        buf: &[u8],
    ) -> Poll<io::Result<usize>> {
        Poll::Ready(Ok(buf.len()))
    }

    fn poll_flush(self: Pin<&mut Self>, _cx: &mut TaskContext<'_>) -> Poll<io::Result<()>> {
        Poll::Ready(Ok(()))
    }

    fn poll_close(self: Pin<&mut Self>, _cx: &mut TaskContext<'_>) -> Poll<io::Result<()>> {
        Poll::Ready(Ok(()))
    }
}

const CONNACK_OK: [u8; 5] = [0x20, 0x03, 0x00, 0x00, 0x00];

/// Connects against the script, then serves the connection until `run` returns.
fn run_against(disconnect: &[u8]) -> Result<(), MqttError> {
    block_on(async {
        let (mut ctx, _handle) = Context::new();
        let rx = ScriptedRx {
            chunks: VecDeque::from(vec![CONNACK_OK.to_vec(), disconnect.to_vec()]),
        };
        ctx.set_up((rx, SinkTx));
        ctx.connect(ConnectOpts::new()).await.expect("CONNACK success");
        ctx.run().await
    })
}

fn expect_disconnected(packet: &[u8], expected: DisconnectReason) {
    match run_against(packet) {
        Err(MqttError::Disconnected(err)) => {
            assert_eq!(err.reason(), expected, "packet {:02x?}", packet);
            assert_eq!(err.reason_string(), None);
            assert_eq!(err.server_reference(), None);
            assert!(err.user_properties().is_empty());
        }
        other => panic!(
            "packet {:02x?}: expected Disconnected({:?}), got {:?}",
            packet, expected, other
        ),
    }
}

#[test]
fn disconnect_full_form_without_properties_exposes_reason() {
    // Remaining length 2: reason code + property length 0.
    expect_disconnected(&[0xe0, 0x02, 0x8b, 0x00], DisconnectReason::ServerShuttingDown);
}

#[test]
fn disconnect_remaining_length_zero_is_normal_disconnection() {
    assert!(run_against(&[0xe0, 0x00]).is_ok());
}

#[test]
fn disconnect_remaining_length_one_exposes_reason() {
    // Remaining length 1: reason code only, property length omitted.
    expect_disconnected(&[0xe0, 0x01, 0x8b], DisconnectReason::ServerShuttingDown);
    expect_disconnected(&[0xe0, 0x01, 0x8e], DisconnectReason::SessionTakenOver);
    expect_disconnected(&[0xe0, 0x01, 0x98], DisconnectReason::AdministrativeAction);
    expect_disconnected(&[0xe0, 0x01, 0x04], DisconnectReason::DisconnectWithWillMessage);
    assert!(run_against(&[0xe0, 0x01, 0x00]).is_ok());
}
