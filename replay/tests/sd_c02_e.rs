//! Demonstration for property C02 (inbound packets decode to exactly the values
//! the server sent): the capability flags announced in a successful CONNACK must
//! be reported unchanged by the `ConnectRsp` accessors, and absent flags must read
//! as the defaults prescribed by the standard (all "available").

use std::{
    io,
    pin::Pin,
    sync::{Arc, Mutex},
    task::{Context as TaskContext, Poll},
};

use futures::{executor::block_on, AsyncRead, AsyncWrite};
use poster::{prelude::Either, ConnectOpts, ConnectRsp, Context};

/// Read half: hands out the scripted server bytes, then reports end of stream.
struct ScriptedRx {
    data: Vec<u8>,
    pos: usize,
}

impl AsyncRead for ScriptedRx {
    fn poll_read(
        mut self: Pin<&mut Self>,
        _cx: &mut TaskContext<'_>,
        buf: &mut [u8],
    ) -> Poll<io::Result<usize>> {
        let remaining = &self.data[self.pos..];
        let n = remaining.len().min(buf.len());
        buf[..n].copy_from_slice(&remaining[..n]);
        self.pos += n;
        Poll::Ready(Ok(n))
    }
}

/// Write half: records everything the client sends.
#[derive(Clone, Default)]
struct RecordingTx {
    written: Arc<Mutex<Vec<u8>>>,
}

impl AsyncWrite for RecordingTx {
    fn poll_write(
        self: Pin<&mut Self>,
        _cx: &mut TaskContext<'_>,
        buf: &[u8],
    ) -> Poll<io::Result<usize>> {
        self.written.lock().unwrap().extend_from_slice(buf);
        Poll::Ready(Ok(buf.len()))
    }

    fn poll_flush(self: Pin<&mut Self>, _cx: &mut TaskContext<'_>) -> Poll<io::Result<()>> {
        Poll::Ready(Ok(()))
    }

    fn poll_close(self: Pin<&mut Self>, _cx: &mut TaskContext<'_>) -> Poll<io::Result<()>> {
        Poll::Ready(Ok(()))
    }
}

/// Builds a successful CONNACK (session present = 0, reason = 0x00) with the given
/// raw property bytes.
fn connack(props: &[u8]) -> Vec<u8> {
    assert!(props.len() < 120);
    let mut packet = vec![0x20, (3 + props.len()) as u8, 0x00, 0x00, props.len() as u8];
    packet.extend_from_slice(props);
    packet
}

fn connect_with(server_bytes: Vec<u8>) -> ConnectRsp {
    let (mut ctx, _handle) = Context::new();
    let tx = RecordingTx::default();
    let sent = tx.written.clone();
    ctx.set_up((
        ScriptedRx {
            data: server_bytes,
            pos: 0,
        },
        tx,
    ));

    let rsp = block_on(ctx.connect(ConnectOpts::new())).expect("CONNACK must be accepted");

    // The client must have sent a CONNECT packet first.
    assert_eq!(sent.lock().unwrap().first().copied(), Some(0x10));

    match rsp {
        Either::Left(rsp) => rsp,
        Either::Right(_) => panic!("expected CONNACK, got AUTH"),
    }
}

const WILDCARD_SUBSCRIPTION_AVAILABLE: u8 = 0x28;
const SUBSCRIPTION_IDENTIFIER_AVAILABLE: u8 = 0x29;
const SHARED_SUBSCRIPTION_AVAILABLE: u8 = 0x2A;

#[test]
fn connack_without_properties_reads_defaults() {
    let rsp = connect_with(connack(&[]));
    assert!(rsp.wildcard_subscription_available());
    assert!(rsp.subscription_identifier_available());
    assert!(rsp.shared_subscription_available());
}

#[test]
fn connack_shared_subscription_explicitly_available() {
    let rsp = connect_with(connack(&[SHARED_SUBSCRIPTION_AVAILABLE, 0x01]));
    assert!(rsp.wildcard_subscription_available());
    assert!(rsp.subscription_identifier_available());
    assert!(rsp.shared_subscription_available());
}

#[test]
fn connack_shared_subscription_unavailable() {
    let rsp = connect_with(connack(&[SHARED_SUBSCRIPTION_AVAILABLE, 0x00]));
    assert!(rsp.wildcard_subscription_available());
    assert!(rsp.subscription_identifier_available());
    assert!(
        !rsp.shared_subscription_available(),
        "server announced Shared Subscription Available = 0"
    );
}

#[test]
fn connack_wildcard_unavailable_only() {
    let rsp = connect_with(connack(&[WILDCARD_SUBSCRIPTION_AVAILABLE, 0x00]));
    assert!(!rsp.wildcard_subscription_available());
    assert!(rsp.subscription_identifier_available());
    assert!(rsp.shared_subscription_available());
}

#[test]
fn connack_all_subscription_flags_in_any_order() {
    let flags = [
        (WILDCARD_SUBSCRIPTION_AVAILABLE, 0x01u8),
        (SUBSCRIPTION_IDENTIFIER_AVAILABLE, 0x01),
        (SHARED_SUBSCRIPTION_AVAILABLE, 0x00),
    ];
    let orders = [
        [0usize, 1, 2],
        [0, 2, 1],
        [1, 0, 2],
        [1, 2, 0],
        [2, 0, 1],
        [2, 1, 0],
    ];

    for order in orders {
        let mut props = Vec::new();
        for idx in order {
            props.push(flags[idx].0);
            props.push(flags[idx].1);
        }

        let rsp = connect_with(connack(&props));
        assert!(rsp.wildcard_subscription_available(), "order {:?}", order);
        assert!(rsp.subscription_identifier_available(), "order {:?}", order);
        assert!(
            !rsp.shared_subscription_available(),
            "order {:?}: server announced Shared Subscription Available = 0",
            order
        );
    }
}
