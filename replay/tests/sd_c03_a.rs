//! C03 demonstration: framing must not depend on how the inbound byte stream is split into reads,
//! and every byte the transport has handed over must be consumed without waiting for an
//! unrelated event.
//!
//! The broker's answers to a QoS 1 PUBLISH and to a PINGREQ are delivered either in two reads
//! (one packet each) or coalesced in a single read. The client has to complete both requests in
//! both cases. The executor (futures::executor::LocalPool) polls a task only when its waker fired,
//! and the scripted transport wakes the reader only when new bytes are pushed.

use futures::{
    executor::LocalPool,
    task::LocalSpawnExt,
    AsyncRead, AsyncWrite,
};
use poster::{ConnectOpts, Context, PublishOpts, QoS};
use std::{
    cell::RefCell,
    collections::VecDeque,
    io,
    pin::Pin,
    rc::Rc,
    task::{Context as TaskContext, Poll, Waker},
};

const CONNACK: [u8; 5] = [0x20, 0x03, 0x00, 0x00, 0x00];
const PUBACK_1: [u8; 4] = [0x40, 0x02, 0x00, 0x01];
const PINGRESP: [u8; 2] = [0xD0, 0x00];

#[derive(Default)]
struct Wire {
    /// Each element is handed out by (at most) one read; a read never spans two elements.
    inbound: VecDeque<Vec<u8>>,
    reader: Option<Waker>,
    outbound: Vec<u8>,
}

#[derive(Clone, Default)]
struct Shared(Rc<RefCell<Wire>>);

impl Shared {
    fn push(&self, chunk: &[u8]) {
        let mut wire = self.0.borrow_mut();
        wire.inbound.push_back(chunk.to_vec());
        if let Some(waker) = wire.reader.take() {
            waker.wake();
        }
    }

    fn unread(&self) -> usize {
        self.0.borrow().inbound.iter().map(Vec::len).sum()
    }

    fn written(&self) -> Vec<u8> {
        self.0.borrow().outbound.clone()
    }
}

struct Rx(Shared);
struct Tx(Shared);

impl AsyncRead for Rx {
    fn poll_read(
        self: Pin<&mut Self>,
        cx: &mut TaskContext<'_>,
        buf: &mut [u8],
    ) -> Poll<io::Result<usize>> {
        let mut wire = (self.0).0.borrow_mut();
        match wire.inbound.pop_front() {
            Some(mut chunk) => {
                let n = chunk.len().min(buf.len());
                buf[..n].copy_from_slice(&chunk[..n]);
                if n < chunk.len() {
                    wire.inbound.push_front(chunk.split_off(n));
                }
                Poll::Ready(Ok(n))
            }
            None => {
                // The connection stays open: never EOF, just nothing to read right now.
                wire.reader = Some(cx.waker().clone());
                Poll::Pending
            }
        }
    }
}

impl AsyncWrite for Tx {
    fn poll_write(
        self: Pin<&mut Self>,
        _: &mut TaskContext<'_>,
        buf: &[u8],
    ) -> Poll<io::Result<usize>> {
        (self.0).0.borrow_mut().outbound.extend_from_slice(buf);
        Poll::Ready(Ok(buf.len()))
    }

    fn poll_flush(self: Pin<&mut Self>, _: &mut TaskContext<'_>) -> Poll<io::Result<()>> {
        Poll::Ready(Ok(()))
    }

    fn poll_close(self: Pin<&mut Self>, _: &mut TaskContext<'_>) -> Poll<io::Result<()>> {
        Poll::Ready(Ok(()))
    }
}

struct Outcome {
    publish_done: bool,
    ping_done: bool,
    run_finished: bool,
    unread: usize,
}

/// Connects, issues one QoS 1 PUBLISH and one PINGREQ, then feeds `replies` to the client, one
/// element per transport read.
fn exchange(replies: &[&[u8]]) -> Outcome {
    let wire = Shared::default();
    let mut pool = LocalPool::new();
    let spawner = pool.spawner();

    let (mut ctx, handle) = Context::new();

    let run_finished = Rc::new(RefCell::new(false));
    let publish_done = Rc::new(RefCell::new(false));
    let ping_done = Rc::new(RefCell::new(false));

    wire.push(&CONNACK);

    {
        let (rx, tx) = (Rx(wire.clone()), Tx(wire.clone()));
        let run_finished = run_finished.clone();
        spawner
            .spawn_local(async move {
                ctx.set_up((rx, tx));
                ctx.connect(ConnectOpts::new()).await.expect("CONNACK");
                let _ = ctx.run().await;
                *run_finished.borrow_mut() = true;
            })
            .unwrap();
    }
    pool.run_until_stalled();

    {
        let mut handle = handle.clone();
        let publish_done = publish_done.clone();
        spawner
            .spawn_local(async move {
                handle
                    .publish(
                        PublishOpts::new()
                            .topic_name("t")
                            .qos(QoS::AtLeastOnce)
                            .payload(b"x"),
                    )
                    .await
                    .expect("PUBACK");
                *publish_done.borrow_mut() = true;
            })
            .unwrap();
    }
    pool.run_until_stalled();

    {
        let mut handle = handle.clone();
        let ping_done = ping_done.clone();
        spawner
            .spawn_local(async move {
                handle.ping().await.expect("PINGRESP");
                *ping_done.borrow_mut() = true;
            })
            .unwrap();
    }
    pool.run_until_stalled();

    // Both requests are on the wire (PUBLISH with packet identifier 1, then PINGREQ).
    let written = wire.written();
    assert!(written.ends_with(&[0xC0, 0x00]), "PINGREQ not written: {written:02x?}");
    assert!(!*publish_done.borrow() && !*ping_done.borrow());

    for reply in replies {
        wire.push(reply);
        pool.run_until_stalled();
    }

    let outcome = Outcome {
        publish_done: *publish_done.borrow(),
        ping_done: *ping_done.borrow(),
        run_finished: *run_finished.borrow(),
        unread: wire.unread(),
    };
    drop(handle);
    outcome
}

fn assert_complete(outcome: &Outcome, how: &str) {
    assert!(!outcome.run_finished, "{how}: run() ended although the transport is open");
    assert_eq!(outcome.unread, 0, "{how}: transport bytes left unread");
    assert!(outcome.publish_done, "{how}: PUBACK was not observed");
    assert!(
        outcome.ping_done,
        "{how}: PINGRESP was handed over by the transport but never observed by the client"
    );
}

#[test]
fn replies_in_separate_reads() {
    let outcome = exchange(&[&PUBACK_1, &PINGRESP]);
    assert_complete(&outcome, "one packet per read");
}

#[test]
fn replies_coalesced_in_one_read() {
    let coalesced = [&PUBACK_1[..], &PINGRESP[..]].concat();
    let outcome = exchange(&[&coalesced]);
    assert_complete(&outcome, "PUBACK+PINGRESP in one read");
}

#[test]
fn replies_cut_inside_first_packet() {
    // Same byte stream, cut after 1, 2 and 3 bytes: the second read ends exactly at the end of
    // the 2-byte PINGRESP, which is then the only thing left in the receive buffer.
    let stream = [&PUBACK_1[..], &PINGRESP[..]].concat();
    for cut in 1..PUBACK_1.len() {
        let outcome = exchange(&[&stream[..cut], &stream[cut..]]);
        assert_complete(&outcome, &format!("cut at {cut}"));
    }
}
