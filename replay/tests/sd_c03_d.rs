//! C03 demonstration: framing must not depend on how the inbound byte stream is chunked.
//!
//! The broker answers a QoS 1 PUBLISH and a PINGREQ. In the reference run every answer arrives
//! in a transport read of its own; in the coalesced run both answers arrive in a single read
//! (PUBACK immediately followed by the two-byte PINGRESP) and the transport then stays quiet.
//! Both runs must complete both requests. The executor (futures LocalPool) polls a task only
//! when its waker fired, and the transport wakes its reader only when new bytes are queued.

use futures::{
    executor::LocalPool,
    io::{AsyncRead, AsyncWrite},
    task::LocalSpawnExt,
};
use poster::{ConnectOpts, Context, PublishOpts, QoS};
use std::{
    cell::{Cell, RefCell},
    collections::VecDeque,
    io,
    pin::Pin,
    rc::Rc,
    task::{Context as TaskContext, Poll, Waker},
};

const CONNACK: [u8; 5] = [0x20, 0x03, 0x00, 0x00, 0x00];
const PINGRESP: [u8; 2] = [0xD0, 0x00];

#[derive(Default)]
struct Wire {
    /// Every entry is handed out by exactly one `poll_read` (one transport read).
    inbound: VecDeque<Vec<u8>>,
    reader: Option<Waker>,
    /// Everything the client has written so far.
    outbound: Vec<u8>,
    /// Number of `poll_read` calls that returned data.
    reads: usize,
}

#[derive(Clone, Default)]
struct Broker(Rc<RefCell<Wire>>);

impl Broker {
    /// Makes `bytes` available to the client as one transport read and wakes the reader.
    fn send(&self, bytes: &[u8]) {
        let waker = {
            let mut wire = self.0.borrow_mut();
            wire.inbound.push_back(bytes.to_vec());
            wire.reader.take()
        };
        if let Some(waker) = waker {
            waker.wake();
        }
    }

    fn written(&self) -> Vec<u8> {
        self.0.borrow().outbound.clone()
    }
}

struct Rx(Broker);
struct Tx(Broker);

impl AsyncRead for Rx {
    fn poll_read(
        self: Pin<&mut Self>,
        cx: &mut TaskContext<'_>,
        buf: &mut [u8],
    ) -> Poll<io::Result<usize>> {
        let mut wire = (self.0).0.borrow_mut();
        match wire.inbound.pop_front() {
            Some(mut chunk) => {
                let n = chunk.len().min(buf.len());
                buf[..n].copy_from_slice(&chunk[..n]);
                if n < chunk.len() {
                    let rest = chunk.split_off(n);
                    wire.inbound.push_front(rest);
                }
                wire.reads += 1;
                Poll::Ready(Ok(n))
            }
            None => {
                // Nothing available: the reader is woken only when the broker sends again.
                wire.reader = Some(cx.waker().clone());
                Poll::Pending
            }
        }
    }
}

impl AsyncWrite for Tx {
    fn poll_write(
        self: Pin<&mut Self>,
        _: &mut TaskContext<'_>,
        buf: &[u8],
    ) -> Poll<io::Result<usize>> {
        (self.0).0.borrow_mut().outbound.extend_from_slice(buf);
        Poll::Ready(Ok(buf.len()))
    }

    fn poll_flush(self: Pin<&mut Self>, _: &mut TaskContext<'_>) -> Poll<io::Result<()>> {
        Poll::Ready(Ok(()))
    }

    fn poll_close(self: Pin<&mut Self>, _: &mut TaskContext<'_>) -> Poll<io::Result<()>> {
        Poll::Ready(Ok(()))
    }
}

/// Splits the recorded outbound bytes into MQTT packets (remaining lengths < 128 only).
fn split_packets(mut bytes: &[u8]) -> Vec<Vec<u8>> {
    let mut packets = Vec::new();
    while !bytes.is_empty() {
        assert!(bytes.len() >= 2 && bytes[1] < 0x80, "unexpected outbound framing");
        let len = 2 + bytes[1] as usize;
        packets.push(bytes[..len].to_vec());
        bytes = &bytes[len..];
    }
    packets
}

/// Packet identifier of an outbound QoS>0 PUBLISH.
fn publish_packet_id(publish: &[u8]) -> [u8; 2] {
    let topic_len = u16::from_be_bytes([publish[2], publish[3]]) as usize;
    [publish[4 + topic_len], publish[5 + topic_len]]
}

/// Runs one session: connect, then a QoS 1 publish and a ping are issued concurrently, and
/// the broker's two answers are delivered split into transport reads as `chunking` dictates
/// (a list of chunk lengths covering PUBACK ++ PINGRESP). Returns (publish done, ping done).
fn session(chunking: &[usize]) -> (bool, bool) {
    let broker = Broker::default();
    let mut pool = LocalPool::new();
    let spawner = pool.spawner();

    let (mut ctx, handle) = Context::new();
    ctx.set_up((Rx(broker.clone()), Tx(broker.clone())));

    broker.send(&CONNACK);

    let ctx_result = Rc::new(RefCell::new(None));
    {
        let ctx_result = ctx_result.clone();
        spawner
            .spawn_local(async move {
                let res = async {
                    ctx.connect(ConnectOpts::new()).await?;
                    ctx.run().await
                }
                .await;
                *ctx_result.borrow_mut() = Some(res.map_err(|e| e.to_string()));
            })
            .unwrap();
    }

    let publish_done = Rc::new(Cell::new(false));
    {
        let publish_done = publish_done.clone();
        let mut handle = handle.clone();
        spawner
            .spawn_local(async move {
                handle
                    .publish(
                        PublishOpts::new()
                            .topic_name("a/b")
                            .qos(QoS::AtLeastOnce)
                            .payload(b"x"),
                    )
                    .await
                    .expect("publish failed");
                publish_done.set(true);
            })
            .unwrap();
    }

    let ping_done = Rc::new(Cell::new(false));
    {
        let ping_done = ping_done.clone();
        let mut handle = handle.clone();
        spawner
            .spawn_local(async move {
                handle.ping().await.expect("ping failed");
                ping_done.set(true);
            })
            .unwrap();
    }

    pool.run_until_stalled();
    assert!(ctx_result.borrow().is_none(), "context stopped early: {:?}", ctx_result.borrow());

    // CONNECT, PUBLISH and PINGREQ must have been written by now.
    let written = split_packets(&broker.written());
    assert_eq!(written.len(), 3, "outbound: {written:02x?}");
    assert_eq!(written[0][0] >> 4, 1, "expected CONNECT first");
    let publish = written.iter().find(|p| p[0] >> 4 == 3).expect("no PUBLISH written");
    assert!(written.iter().any(|p| p[..] == [0xC0, 0x00]), "no PINGREQ written");

    let id = publish_packet_id(publish);
    let mut answers = vec![0x40, 0x02, id[0], id[1]]; // PUBACK, success
    answers.extend_from_slice(&PINGRESP);
    assert_eq!(chunking.iter().sum::<usize>(), answers.len());

    let mut rest = &answers[..];
    for &len in chunking {
        let (chunk, tail) = rest.split_at(len);
        broker.send(chunk);
        rest = tail;
        // Let the client do everything it can do with what has arrived so far.
        pool.run_until_stalled();
    }

    assert!(
        broker.0.borrow().inbound.is_empty(),
        "client left bytes unread in the transport"
    );
    assert!(ctx_result.borrow().is_none(), "context stopped: {:?}", ctx_result.borrow());

    (publish_done.get(), ping_done.get())
}

#[test]
fn reference_each_packet_in_its_own_read() {
    assert_eq!(session(&[4, 2]), (true, true));
}

#[test]
fn single_byte_reads() {
    assert_eq!(session(&[1, 1, 1, 1, 1, 1]), (true, true));
}

#[test]
fn puback_and_pingresp_coalesced_in_one_read() {
    // Same bytes as the reference, one transport read. Nothing else will ever arrive, so the
    // client has to frame both packets out of this read without any further event.
    assert_eq!(
        session(&[6]),
        (true, true),
        "(publish done, ping done): a packet sitting complete in the receive buffer was not delivered"
    );
}

#[test]
fn every_chunking_of_the_two_answers() {
    // All 32 compositions of the 6 answer bytes into consecutive reads.
    for mask in 0u32..32 {
        let mut chunking = Vec::new();
        let mut run = 1;
        for bit in 0..5 {
            if mask & (1 << bit) != 0 {
                chunking.push(run);
                run = 1;
            } else {
                run += 1;
            }
        }
        chunking.push(run);
        assert_eq!(session(&chunking), (true, true), "chunking {chunking:?}");
    }
}
