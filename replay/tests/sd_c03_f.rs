//! Framing must not depend on how the inbound byte stream is cut into transport reads.
//!
//! A scripted in-memory broker sends SUBACK followed by three PUBLISH packets. The same bytes are
//! delivered (a) one packet per read - the reference - and (b) cut into reads at other offsets.
//! The messages seen on the subscription stream must be the same.

use futures::{
    executor::LocalPool,
    io::{AsyncRead, AsyncWrite},
    task::LocalSpawnExt,
};
use poster::{prelude::*, ConnectOpts, Context, SubscribeOpts, SubscriptionOpts};
use std::{
    cell::RefCell,
    collections::VecDeque,
    io,
    pin::Pin,
    rc::Rc,
    task::{Context as TaskContext, Poll, Waker},
};

#[derive(Default)]
struct Wire {
    /// Every element is handed out by exactly one `poll_read` (or several, if the caller's
    /// buffer is shorter); a read never spans two elements.
    chunks: VecDeque<Vec<u8>>,
    waker: Option<Waker>,
}

#[derive(Clone, Default)]
struct Rx(Rc<RefCell<Wire>>);

impl Rx {
    fn push(&self, chunk: &[u8]) {
        if chunk.is_empty() {
            return;
        }
        let mut wire = self.0.borrow_mut();
        wire.chunks.push_back(chunk.to_vec());
        if let Some(waker) = wire.waker.take() {
            waker.wake();
        }
    }

    fn unread(&self) -> usize {
        self.0.borrow().chunks.iter().map(Vec::len).sum()
    }
}

impl AsyncRead for Rx {
    fn poll_read(
        self: Pin<&mut Self>,
        cx: &mut TaskContext<'_>,
        buf: &mut [u8],
    ) -> Poll<io::Result<usize>> {
        let mut wire = self.0.borrow_mut();
        match wire.chunks.front_mut() {
            None => {
                wire.waker = Some(cx.waker().clone());
                Poll::Pending
            }
            Some(chunk) => {
                let n = chunk.len().min(buf.len());
                buf[..n].copy_from_slice(&chunk[..n]);
                chunk.drain(..n);
                if chunk.is_empty() {
                    wire.chunks.pop_front();
                }
                Poll::Ready(Ok(n))
            }
        }
    }
}

#[derive(Clone, Default)]
struct Tx(Rc<RefCell<Vec<u8>>>);

impl AsyncWrite for Tx {
    fn poll_write(
        self: Pin<&mut Self>,
        _: &mut TaskContext<'_>,
        buf: &[u8],
    ) -> Poll<io::Result<usize>> {
        self.0.borrow_mut().extend_from_slice(buf);
        Poll::Ready(Ok(buf.len()))
    }

    fn poll_flush(self: Pin<&mut Self>, _: &mut TaskContext<'_>) -> Poll<io::Result<()>> {
        Poll::Ready(Ok(()))
    }

    fn poll_close(self: Pin<&mut Self>, _: &mut TaskContext<'_>) -> Poll<io::Result<()>> {
        Poll::Ready(Ok(()))
    }
}

const CONNACK: [u8; 5] = [0x20, 0x03, 0x00, 0x00, 0x00];
/// Packet identifier 1 (the first one a fresh handle uses), no properties, granted QoS 0.
const SUBACK: [u8; 6] = [0x90, 0x04, 0x00, 0x01, 0x00, 0x00];

/// QoS 0 PUBLISH to topic "t" carrying subscription identifier 1.
fn publish(payload: &[u8]) -> Vec<u8> {
    let mut body = vec![0x00, 0x01, b't', 0x02, 0x0b, 0x01];
    body.extend_from_slice(payload);

    let mut packet = vec![0x30];
    let mut len = body.len();
    loop {
        let mut byte = (len % 128) as u8;
        len /= 128;
        if len > 0 {
            byte |= 0x80;
        }
        packet.push(byte);
        if len == 0 {
            break;
        }
    }
    packet.extend_from_slice(&body);
    packet
}

#[derive(Debug, PartialEq, Eq, Clone)]
struct Observation {
    messages: Vec<Vec<u8>>,
    run_result: Option<String>,
    unread: usize,
}

/// Connects, subscribes, then delivers `reads` (one transport read each) and reports what the
/// application saw at executor quiescence.
fn observe(reads: &[&[u8]]) -> Observation {
    let mut pool = LocalPool::new();
    let spawner = pool.spawner();

    let rx = Rx::default();
    let tx = Tx::default();
    let messages = Rc::new(RefCell::new(Vec::new()));
    let run_result = Rc::new(RefCell::new(None));

    let (mut ctx, mut handle) = Context::new();

    rx.push(&CONNACK);

    {
        let (rx, tx) = (rx.clone(), tx.clone());
        let run_result = run_result.clone();
        spawner
            .spawn_local(async move {
                ctx.set_up((rx, tx))
                    .connect(ConnectOpts::new())
                    .await
                    .expect("connect");
                let result = ctx.run().await;
                *run_result.borrow_mut() = Some(format!("{:?}", result.map_err(|e| e.to_string())));
            })
            .unwrap();
    }

    {
        let messages = messages.clone();
        spawner
            .spawn_local(async move {
                let rsp = handle
                    .subscribe(SubscribeOpts::new().subscription("t", SubscriptionOpts::new()))
                    .await
                    .expect("subscribe");
                let mut stream = rsp.stream();
                while let Some(msg) = stream.next().await {
                    messages.borrow_mut().push(msg.payload().to_vec());
                }
            })
            .unwrap();
    }

    // CONNECT and SUBSCRIBE are on the wire, the context waits for the broker.
    pool.run_until_stalled();
    assert!(!tx.0.borrow().is_empty());

    for read in reads {
        rx.push(read);
    }
    pool.run_until_stalled();

    let observation = Observation {
        messages: messages.borrow().clone(),
        run_result: run_result.borrow().clone(),
        unread: rx.unread(),
    };
    observation
}

fn packets() -> Vec<Vec<u8>> {
    let big: Vec<u8> = (0..200u16).map(|i| i as u8).collect();
    vec![
        SUBACK.to_vec(),
        publish(b"first"),
        publish(&big), // two byte remaining length
        publish(b"third"),
    ]
}

fn reference() -> Observation {
    let packets = packets();
    let reads: Vec<&[u8]> = packets.iter().map(Vec::as_slice).collect();
    let reference = observe(&reads);

    assert_eq!(reference.messages.len(), 3);
    assert_eq!(reference.messages[0], b"first");
    assert_eq!(reference.messages[1].len(), 200);
    assert_eq!(reference.messages[2], b"third");
    assert_eq!(reference.run_result, None, "run() must still be alive");
    assert_eq!(reference.unread, 0);
    reference
}

/// A read ends right after the first byte of a two byte remaining length.
#[test]
fn read_ends_inside_remaining_length() {
    let reference = reference();
    let packets = packets();
    let stream = packets.concat();

    let cut = packets[0].len() + packets[1].len() + 2;
    assert_eq!(observe(&[&stream[..cut], &stream[cut..]]), reference);
}

/// A read ends right after the first byte (packet type) of a packet that follows other packets.
#[test]
fn read_ends_after_packet_type() {
    let reference = reference();
    let packets = packets();
    let stream = packets.concat();

    let cut = stream.len() - packets[3].len() + 1;
    assert_eq!(observe(&[&stream[..cut], &stream[cut..]]), reference);
}

/// Every way of cutting the stream into two reads, and byte by byte.
#[test]
fn every_cut_position() {
    let reference = reference();
    let stream = packets().concat();

    for cut in 1..stream.len() {
        assert_eq!(
            observe(&[&stream[..cut], &stream[cut..]]),
            reference,
            "stream cut at offset {cut}"
        );
    }

    let bytewise: Vec<&[u8]> = stream.chunks(1).collect();
    assert_eq!(observe(&bytewise), reference, "byte by byte");
}

/// Packets delivered whole, several per read, are framed correctly.
#[test]
fn whole_packets_coalesced() {
    let reference = reference();
    let packets = packets();
    let stream = packets.concat();

    assert_eq!(observe(&[&stream[..]]), reference);

    let cut = packets[0].len() + packets[1].len();
    assert_eq!(observe(&[&stream[..cut], &stream[cut..]]), reference);
}
