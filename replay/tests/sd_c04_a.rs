//! C04 demonstration: the broker answers a QoS 1 PUBLISH and a PINGREQ in one transport
//! segment (PUBACK immediately followed by PINGRESP). Every byte has been delivered, so both
//! calls must complete; the client may not sit on a fully received packet waiting for more input.

use futures::{
    executor::LocalPool,
    task::LocalSpawnExt,
    AsyncRead, AsyncWrite,
};
use poster::{ConnectOpts, Context, PublishOpts, QoS};
use std::{
    cell::RefCell,
    collections::VecDeque,
    io,
    pin::Pin,
    rc::Rc,
    task::{Context as TaskContext, Poll, Waker},
};

#[derive(Default)]
struct Wire {
    /// Segments the "broker" has sent; one segment is handed over per read.
    inbound: VecDeque<Vec<u8>>,
    /// Everything the client has written.
    outbound: Vec<u8>,
    reader: Option<Waker>,
}

#[derive(Clone, Default)]
struct Shared(Rc<RefCell<Wire>>);

impl Shared {
    fn deliver(&self, segment: &[u8]) {
        let mut wire = self.0.borrow_mut();
        wire.inbound.push_back(segment.to_vec());
        if let Some(waker) = wire.reader.take() {
            waker.wake();
        }
    }

    fn written(&self) -> Vec<u8> {
        self.0.borrow().outbound.clone()
    }
}

struct Rx(Shared);
struct Tx(Shared);

impl AsyncRead for Rx {
    fn poll_read(
        self: Pin<&mut Self>,
        cx: &mut TaskContext<'_>,
        buf: &mut [u8],
    ) -> Poll<io::Result<usize>> {
        let mut wire = (self.0).0.borrow_mut();
        match wire.inbound.pop_front() {
            Some(mut segment) => {
                let n = segment.len().min(buf.len());
                buf[..n].copy_from_slice(&segment[..n]);
                if n < segment.len() {
                    wire.inbound.push_front(segment.split_off(n));
                }
                Poll::Ready(Ok(n))
            }
            None => {
                // Open, idle connection: nothing to read until the broker sends again.
                wire.reader = Some(cx.waker().clone());
                Poll::Pending
            }
        }
    }
}

impl AsyncWrite for Tx {
    fn poll_write(
        self: Pin<&mut Self>,
        _: &mut TaskContext<'_>,
        buf: &[u8],
    ) -> Poll<io::Result<usize>> {
        (self.0).0.borrow_mut().outbound.extend_from_slice(buf);
        Poll::Ready(Ok(buf.len()))
    }

    fn poll_flush(self: Pin<&mut Self>, _: &mut TaskContext<'_>) -> Poll<io::Result<()>> {
        Poll::Ready(Ok(()))
    }

    fn poll_close(self: Pin<&mut Self>, _: &mut TaskContext<'_>) -> Poll<io::Result<()>> {
        Poll::Ready(Ok(()))
    }
}

const CONNACK: [u8; 5] = [0x20, 0x03, 0x00, 0x00, 0x00];
const PUBACK_1: [u8; 4] = [0x40, 0x02, 0x00, 0x01];
const PINGRESP: [u8; 2] = [0xd0, 0x00];
const PINGREQ: [u8; 2] = [0xc0, 0x00];

#[test]
fn puback_and_pingresp_in_one_segment_are_both_served() {
    let wire = Shared::default();
    let mut pool = LocalPool::new();
    let spawner = pool.spawner();

    let (mut ctx, handle) = Context::new();
    ctx.set_up((Rx(wire.clone()), Tx(wire.clone())));

    wire.deliver(&CONNACK);
    pool.run_until(ctx.connect(ConnectOpts::new()))
        .expect("connect");

    let run_result = Rc::new(RefCell::new(None));
    let publish_result = Rc::new(RefCell::new(None));
    let ping_result = Rc::new(RefCell::new(None));

    {
        let out = run_result.clone();
        spawner
            .spawn_local(async move {
                let res = ctx.run().await;
                *out.borrow_mut() = Some(res.map_err(|err| format!("{err:?}")));
            })
            .unwrap();
    }
    {
        let out = publish_result.clone();
        let mut handle = handle.clone();
        spawner
            .spawn_local(async move {
                let res = handle
                    .publish(
                        PublishOpts::new()
                            .topic_name("a/b")
                            .qos(QoS::AtLeastOnce)
                            .payload(b"x"),
                    )
                    .await;
                *out.borrow_mut() = Some(res.map_err(|err| format!("{err:?}")));
            })
            .unwrap();
    }
    {
        let out = ping_result.clone();
        let mut handle = handle.clone();
        spawner
            .spawn_local(async move {
                let res = handle.ping().await;
                *out.borrow_mut() = Some(res.map_err(|err| format!("{err:?}")));
            })
            .unwrap();
    }

    // Both requests go out, nothing has been answered yet.
    pool.run_until_stalled();
    let written = wire.written();
    assert!(
        written.iter().any(|byte| byte >> 4 == 3),
        "PUBLISH was not written: {written:02x?}"
    );
    assert!(
        written.ends_with(&PINGREQ),
        "PINGREQ was not written: {written:02x?}"
    );
    assert!(publish_result.borrow().is_none());
    assert!(ping_result.borrow().is_none());

    // The broker answers both in a single segment.
    let mut segment = PUBACK_1.to_vec();
    segment.extend_from_slice(&PINGRESP);
    wire.deliver(&segment);
    pool.run_until_stalled();

    assert!(
        run_result.borrow().is_none(),
        "run() ended: {:?}",
        run_result.borrow()
    );
    assert_eq!(
        *publish_result.borrow(),
        Some(Ok(())),
        "publish() was not completed by the PUBACK"
    );
    assert_eq!(
        *ping_result.borrow(),
        Some(Ok(())),
        "ping() is stalled although its PINGRESP has been delivered in full"
    );
}
