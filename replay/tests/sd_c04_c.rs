//! Demonstration for property C04: no inbound byte sequence may panic the client.
//!
//! A PUBLISH whose property length exceeds the bytes left in the packet (but not the
//! packet's remaining length) must be rejected with an error, at every protocol phase.

use core::{
    pin::Pin,
    task::{Context as TaskContext, Poll},
};
use futures::{executor::block_on, AsyncRead, AsyncWrite};
use poster::{ConnectOpts, Context};
use std::{collections::VecDeque, io};

/// Read half: hands out the scripted chunks one by one, then reports end-of-stream.
struct ScriptedRx {
    chunks: VecDeque<Vec<u8>>,
}

impl ScriptedRx {
    fn new(chunks: &[&[u8]]) -> Self {
        Self {
            chunks: chunks.iter().map(|chunk| chunk.to_vec()).collect(),
        }
    }
}

impl AsyncRead for ScriptedRx {
    fn poll_read(
        mut self: Pin<&mut Self>,
        _cx: &mut TaskContext<'_>,
        buf: &mut [u8],
    ) -> Poll<io::Result<usize>> {
        match self.chunks.pop_front() {
            None => Poll::Ready(Ok(0)), // EOF
            Some(mut chunk) => {
                let n = chunk.len().min(buf.len());
                buf[..n].copy_from_slice(&chunk[..n]);
                if n < chunk.len() {
                    let rest = chunk.split_off(n);
                    self.chunks.push_front(rest);
                }
                Poll::Ready(Ok(n))
            }
        }
    }
}

/// Write half: swallows everything.
struct SinkTx;

impl AsyncWrite for SinkTx {
    fn poll_write(
        self: Pin<&mut Self>,
        _cx: &mut TaskContext<'_>,
        buf: &[u8],
    ) -> Poll<io::Result<usize>> {
        Poll::Ready(Ok(buf.len()))
    }

    fn poll_flush(self: Pin<&mut Self>, _cx: &mut TaskContext<'_>) -> Poll<io::Result<()>> {
        Poll::Ready(Ok(()))
    }

    fn poll_close(self: Pin<&mut Self>, _cx: &mut TaskContext<'_>) -> Poll<io::Result<()>> {
        Poll::Ready(Ok(()))
    }
}

const CONNACK: [u8; 5] = [0x20, 0x03, 0x00, 0x00, 0x00];

/// QoS 0 PUBLISH, topic "t", property length 3 although a single byte follows it.
/// The property length (3) is still below the remaining length of the packet (5).
const PUBLISH_BAD_PROPERTY_LEN: [u8; 7] = [
    0x30, // PUBLISH, QoS 0
    0x05, // Remaining length
    0x00, 0x01, b't',  // Topic name
    0x03, // Property length: more than what is left
    0x00,
];

/// Well-formed counterpart, to make sure the script itself is sound.
const PUBLISH_OK: [u8; 7] = [
    0x30, 0x05, 0x00, 0x01, b't', 0x00, // No properties
    b'x',
];

#[test]
fn malformed_publish_while_running_is_an_error() {
    let (mut ctx, _handle) = Context::new();
    ctx.set_up((
        ScriptedRx::new(&[&CONNACK, &PUBLISH_OK, &PUBLISH_BAD_PROPERTY_LEN]),
        SinkTx,
    ));

    block_on(async {
        assert!(ctx.connect(ConnectOpts::new()).await.is_ok());
        // Either an error for the malformed packet, or, had it been skipped, for the EOF after it.
        assert!(ctx.run().await.is_err());
    });
}

#[test]
fn malformed_publish_while_connecting_is_an_error() {
    let (mut ctx, _handle) = Context::new();
    ctx.set_up((ScriptedRx::new(&[&PUBLISH_BAD_PROPERTY_LEN]), SinkTx));

    block_on(async {
        assert!(ctx.connect(ConnectOpts::new()).await.is_err());
    });
}

#[test]
fn truncated_property_within_a_sound_property_length_is_an_error() {
    // Control: property length 3 with exactly 3 bytes left (passes with and without the change).
    // Here: property 0x01 (payload format indicator) = 1, then a truncated property -> error, no panic.
    const PACKET: [u8; 9] = [0x30, 0x07, 0x00, 0x01, b't', 0x03, 0x01, 0x01, 0x02];

    let (mut ctx, _handle) = Context::new();
    ctx.set_up((ScriptedRx::new(&[&CONNACK, &PACKET]), SinkTx));

    block_on(async {
        assert!(ctx.connect(ConnectOpts::new()).await.is_ok());
        assert!(ctx.run().await.is_err());
    });
}
