//! Demonstration for property C04: no inbound byte sequence may panic the client.
//!
//! A Variable Byte Integer (remaining length, property length) is at most four bytes long.
//! A fifth continuation byte is malformed and has to be answered with an error, in debug as
//! well as in release arithmetic. The tests below feed such a field at three different
//! places and expect the affected call to return `Err` instead of unwinding.

use std::{
    collections::VecDeque,
    io,
    pin::Pin,
    sync::{Arc, Mutex},
    task::{Context as TaskContext, Poll},
};

use futures::{executor::block_on, AsyncRead, AsyncWrite};
use poster::{ConnectOpts, Context, ContextHandle};

/// Read half: hands out the scripted chunks one per read, then reports end-of-stream.
struct ScriptedRx {
    chunks: VecDeque<Vec<u8>>,
}

impl ScriptedRx {
    fn new(chunks: &[&[u8]]) -> Self {
        Self {
            chunks: chunks.iter().map(|chunk| chunk.to_vec()).collect(),
        }
    }
}

impl AsyncRead for ScriptedRx {
    fn poll_read(
        mut self: Pin<&mut Self>,
        _cx: &mut TaskContext<'_>,
        buf: &mut [u8],
    ) -> Poll<io::Result<usize>> {
        match self.chunks.pop_front() {
            Some(mut chunk) => {
                let n = chunk.len().min(buf.len());
                buf[..n].copy_from_slice(&chunk[..n]);
                if n < chunk.len() {
                    let rest = chunk.split_off(n);
                    self.chunks.push_front(rest);
                }
                Poll::Ready(Ok(n))
            }
            None => Poll::Ready(Ok(0)), // EOF
        }
    }
}

/// Write half: records everything the client sends.
#[derive(Clone, Default)]
struct RecordingTx {
    written: Arc<Mutex<Vec<u8>>>,
}

impl AsyncWrite for RecordingTx {
    fn poll_write(
        self: Pin<&mut Self>,
        _cx: &mut TaskContext<'_>,
        buf: &[u8],
    ) -> Poll<io::Result<usize>> {
        self.written.lock().unwrap().extend_from_slice(buf);
        Poll::Ready(Ok(buf.len()))
    }

    fn poll_flush(self: Pin<&mut Self>, _cx: &mut TaskContext<'_>) -> Poll<io::Result<()>> {
        Poll::Ready(Ok(()))
    }

    fn poll_close(self: Pin<&mut Self>, _cx: &mut TaskContext<'_>) -> Poll<io::Result<()>> {
        Poll::Ready(Ok(()))
    }
}

const CONNACK_OK: &[u8] = &[0x20, 0x03, 0x00, 0x00, 0x00];

fn client(chunks: &[&[u8]]) -> (Context<ScriptedRx, RecordingTx>, ContextHandle) {
    let (mut ctx, handle) = Context::new();
    ctx.set_up((ScriptedRx::new(chunks), RecordingTx::default()));
    (ctx, handle)
}

/// CONNACK fixed header followed by a five byte remaining length.
#[test]
fn overlong_remaining_length_while_connecting() {
    let (mut ctx, _handle) = client(&[&[0x20, 0xff, 0xff, 0xff, 0xff, 0x7f, 0x00, 0x00, 0x00]]);

    let result = block_on(ctx.connect(ConnectOpts::new()));
    assert!(result.is_err(), "malformed remaining length must be refused");
}

/// Well framed CONNACK whose property length is a five byte Variable Byte Integer.
#[test]
fn overlong_property_length_in_connack() {
    let (mut ctx, _handle) = client(&[&[
        0x20, 0x07, // CONNACK, remaining length 7
        0x00, 0x00, // no session, success
        0x80, 0x80, 0x80, 0x80, 0x01, // property length, five bytes
    ]]);

    let result = block_on(ctx.connect(ConnectOpts::new()));
    assert!(result.is_err(), "malformed property length must be refused");
}

/// Unsolicited PUBACK while running whose property length is a five byte Variable Byte Integer.
#[test]
fn overlong_property_length_in_puback_while_running() {
    let (mut ctx, _handle) = client(&[
        CONNACK_OK,
        &[
            0x40, 0x08, // PUBACK, remaining length 8
            0x00, 0x01, // packet identifier 1
            0x00, // success
            0xff, 0xff, 0xff, 0xff, 0x7f, // property length, five bytes
        ],
    ]);

    block_on(async {
        ctx.connect(ConnectOpts::new())
            .await
            .expect("plain CONNACK is accepted");

        let result = ctx.run().await;
        assert!(result.is_err(), "malformed PUBACK must end run() with an error");
    });
}
