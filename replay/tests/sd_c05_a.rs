//! Demonstration for property C05: pings complete one per PINGRESP, in issue order, no matter
//! which other acknowledgements arrive in between.
//!
//! Scenario: a QoS 1 publish is started, then two pings (from different handle clones). The broker
//! acknowledges the publish first, then sends ONE PINGRESP. The first ping must complete and the
//! second one must stay pending until the second PINGRESP.

use futures::{task::noop_waker, AsyncRead, AsyncWrite};
use poster::{ConnectOpts, Context, PublishOpts, QoS};
use std::{
    cell::RefCell,
    collections::VecDeque,
    future::Future,
    io,
    pin::Pin,
    rc::Rc,
    task::{Context as TaskContext, Poll},
};

#[derive(Clone, Default)]
struct Wire {
    to_client: Rc<RefCell<VecDeque<u8>>>,
    from_client: Rc<RefCell<Vec<u8>>>,
}

struct Rx(Wire);
struct Tx(Wire);

impl AsyncRead for Rx {
    fn poll_read(
        self: Pin<&mut Self>,
        _cx: &mut TaskContext<'_>,
        buf: &mut [u8],
    ) -> Poll<io::Result<usize>> {
        let mut queue = self.0.to_client.borrow_mut();
        if queue.is_empty() {
            return Poll::Pending; // Driven by explicit polling, no waker needed.
        }
        let n = buf.len().min(queue.len());
        for slot in buf.iter_mut().take(n) {
            *slot = queue.pop_front().unwrap();
        }
        Poll::Ready(Ok(n))
    }
}

impl AsyncWrite for Tx {
    fn poll_write(
        self: Pin<&mut Self>,
        _cx: &mut TaskContext<'_>,
        buf: &[u8],
    ) -> Poll<io::Result<usize>> {
        self.0.from_client.borrow_mut().extend_from_slice(buf);
        Poll::Ready(Ok(buf.len()))
    }

    fn poll_flush(self: Pin<&mut Self>, _cx: &mut TaskContext<'_>) -> Poll<io::Result<()>> {
        Poll::Ready(Ok(()))
    }

    fn poll_close(self: Pin<&mut Self>, _cx: &mut TaskContext<'_>) -> Poll<io::Result<()>> {
        Poll::Ready(Ok(()))
    }
}

fn poll_once<F: Future + ?Sized>(fut: &mut Pin<Box<F>>) -> Poll<F::Output> {
    let waker = noop_waker();
    let mut cx = TaskContext::from_waker(&waker);
    fut.as_mut().poll(&mut cx)
}

const CONNACK: [u8; 5] = [0x20, 0x03, 0x00, 0x00, 0x00];
const PUBACK_1: [u8; 4] = [0x40, 0x02, 0x00, 0x01];
const PINGRESP: [u8; 2] = [0xD0, 0x00];
const PINGREQ: [u8; 2] = [0xC0, 0x00];

/// `with_publish == false` is the control run: two pings only.
fn scenario(with_publish: bool) {
    let wire = Wire::default();
    let (mut ctx, handle) = Context::new();
    ctx.set_up((Rx(wire.clone()), Tx(wire.clone())));

    wire.to_client.borrow_mut().extend(CONNACK);
    futures::executor::block_on(ctx.connect(ConnectOpts::new())).expect("connect");
    wire.from_client.borrow_mut().clear();

    let mut run = Box::pin(ctx.run());

    let mut h_pub = handle.clone();
    let mut h_ping1 = handle.clone();
    let mut h_ping2 = handle.clone();

    let mut publish = Box::pin(async move {
        h_pub
            .publish(
                PublishOpts::new()
                    .topic_name("t")
                    .payload(b"x")
                    .qos(QoS::AtLeastOnce),
            )
            .await
    });
    let mut ping1 = Box::pin(async move { h_ping1.ping().await });
    let mut ping2 = Box::pin(async move { h_ping2.ping().await });

    // Issue order: (publish), ping1, ping2.
    if with_publish {
        assert!(poll_once(&mut publish).is_pending());
    }
    assert!(poll_once(&mut ping1).is_pending());
    assert!(poll_once(&mut ping2).is_pending());

    // Let the context task put everything on the wire.
    for _ in 0..4 {
        assert!(poll_once(&mut run).is_pending());
    }
    {
        let sent = wire.from_client.borrow();
        assert!(sent.ends_with(&[PINGREQ, PINGREQ].concat()), "both PINGREQs sent: {sent:?}");
        if with_publish {
            assert_eq!(sent[0] >> 4, 3, "PUBLISH sent first: {sent:?}");
        }
    }

    // Nothing was acknowledged yet.
    assert!(poll_once(&mut ping1).is_pending());
    assert!(poll_once(&mut ping2).is_pending());

    if with_publish {
        assert!(poll_once(&mut publish).is_pending());
        wire.to_client.borrow_mut().extend(PUBACK_1);
        assert!(poll_once(&mut run).is_pending());
        assert!(matches!(poll_once(&mut publish), Poll::Ready(Ok(()))));
        assert!(poll_once(&mut ping1).is_pending(), "PUBACK must not complete a ping");
        assert!(poll_once(&mut ping2).is_pending(), "PUBACK must not complete a ping");
    }

    // First PINGRESP: belongs to the ping issued first.
    wire.to_client.borrow_mut().extend(PINGRESP);
    assert!(poll_once(&mut run).is_pending());

    let second = poll_once(&mut ping2);
    assert!(
        second.is_pending(),
        "second ping completed by the first PINGRESP (out of issue order)"
    );
    assert!(
        matches!(poll_once(&mut ping1), Poll::Ready(Ok(()))),
        "first ping not completed by the first PINGRESP"
    );

    // Second PINGRESP completes the second ping.
    wire.to_client.borrow_mut().extend(PINGRESP);
    assert!(poll_once(&mut run).is_pending());
    assert!(matches!(poll_once(&mut ping2), Poll::Ready(Ok(()))));
}

#[test]
fn pings_complete_in_issue_order() {
    scenario(false);
}

#[test]
fn pings_complete_in_issue_order_after_interleaved_puback() {
    scenario(true);
}
