//! Demonstration for property C05: every QoS 1 publish completes with the PUBACK bearing
//! its own packet identifier, never with the acknowledgement of another operation.
//!
//! Scenario: publish A is left unacknowledged by the broker while 255 further QoS 1
//! publishes are issued and acknowledged, so that the next publish B gets the packet
//! identifier 257. The broker then acknowledges B (with a failure reason) before A.

use futures::{
    task::noop_waker, AsyncRead, AsyncWrite, Future,
};
use poster::{error::MqttError, reason::PubackReason, ConnectOpts, Context, PublishOpts, QoS};
use std::{
    cell::RefCell,
    collections::VecDeque,
    io,
    pin::Pin,
    rc::Rc,
    task::{Context as TaskContext, Poll},
};

/// In-memory byte pipe. Reading from an empty pipe is `Pending`; every future in this test
/// is polled by hand, so no waker bookkeeping is needed.
#[derive(Clone, Default)]
struct Pipe(Rc<RefCell<VecDeque<u8>>>);

impl Pipe {
    fn push(&self, bytes: &[u8]) {
        self.0.borrow_mut().extend(bytes.iter().copied());
    }

    fn drain(&self) -> Vec<u8> {
        self.0.borrow_mut().drain(..).collect()
    }
}

impl AsyncRead for Pipe {
    fn poll_read(
        self: Pin<&mut Self>,
        _cx: &mut TaskContext<'_>,
        buf: &mut [u8],
    ) -> Poll<io::Result<usize>> {
        let mut inner = self.0.borrow_mut();
        if inner.is_empty() {
            return Poll::Pending;
        }
        let n = buf.len().min(inner.len());
        for slot in buf.iter_mut().take(n) {
            *slot = inner.pop_front().unwrap();
        }
        Poll::Ready(Ok(n))
    }
}

impl AsyncWrite for Pipe {
    fn poll_write(
        self: Pin<&mut Self>,
        _cx: &mut TaskContext<'_>,
        buf: &[u8],
    ) -> Poll<io::Result<usize>> {
        self.push(buf);
        Poll::Ready(Ok(buf.len()))
    }

    fn poll_flush(self: Pin<&mut Self>, _cx: &mut TaskContext<'_>) -> Poll<io::Result<()>> {
        Poll::Ready(Ok(()))
    }

    fn poll_close(self: Pin<&mut Self>, _cx: &mut TaskContext<'_>) -> Poll<io::Result<()>> {
        Poll::Ready(Ok(()))
    }
}

fn poll_once<F: Future + ?Sized>(fut: &mut Pin<Box<F>>) -> Poll<F::Output> {
    let waker = noop_waker();
    let mut cx = TaskContext::from_waker(&waker);
    fut.as_mut().poll(&mut cx)
}

/// Extracts the packet identifiers of the (small) QoS 1 PUBLISH packets found in `bytes`.
fn publish_ids(bytes: &[u8]) -> Vec<u16> {
    let mut ids = Vec::new();
    let mut pos = 0;
    while pos < bytes.len() {
        let hdr = bytes[pos];
        let remaining = bytes[pos + 1] as usize;
        assert!(remaining < 128, "only short packets are expected");
        let body = &bytes[pos + 2..pos + 2 + remaining];
        if hdr >> 4 == 3 {
            let topic_len = u16::from_be_bytes([body[0], body[1]]) as usize;
            ids.push(u16::from_be_bytes([
                body[2 + topic_len],
                body[3 + topic_len],
            ]));
        }
        pos += 2 + remaining;
    }
    ids
}

type Op = Pin<Box<dyn Future<Output = Result<(), MqttError>>>>;

#[test]
fn puback_completes_the_publish_it_is_addressed_to() {
    let to_client = Pipe::default();
    let from_client = Pipe::default();

    let (mut ctx, handle) = Context::new();
    ctx.set_up((to_client.clone(), from_client.clone()));

    // CONNACK, success, no properties.
    to_client.push(&[0x20, 0x03, 0x00, 0x00, 0x00]);
    futures::executor::block_on(ctx.connect(ConnectOpts::new())).unwrap();
    from_client.drain(); // CONNECT

    let mut run = Box::pin(ctx.run());
    assert!(poll_once(&mut run).is_pending());

    let publish = |topic: &'static str| -> Op {
        let mut handle = handle.clone();
        Box::pin(async move {
            handle
                .publish(
                    PublishOpts::new()
                        .qos(QoS::AtLeastOnce)
                        .topic_name(topic)
                        .payload(b"x"),
                )
                .await
        })
    };

    // Publish A reaches the wire with packet identifier 1; the broker is slow to acknowledge it.
    let mut op_a = publish("a");
    assert!(poll_once(&mut op_a).is_pending());
    assert!(poll_once(&mut run).is_pending());
    assert_eq!(publish_ids(&from_client.drain()), vec![1]);

    // 255 publishes, each acknowledged successfully right away (identifiers 2..=256).
    for id in 2u16..=256 {
        let mut op = publish("filler");
        assert!(poll_once(&mut op).is_pending());
        assert!(poll_once(&mut run).is_pending());
        assert_eq!(publish_ids(&from_client.drain()), vec![id]);

        let [hi, lo] = id.to_be_bytes();
        to_client.push(&[0x40, 0x02, hi, lo]);
        assert!(poll_once(&mut run).is_pending());
        match poll_once(&mut op) {
            Poll::Ready(Ok(())) => {}
            Poll::Ready(Err(err)) => panic!("filler publish {id} failed: {err}"),
            Poll::Pending => panic!("filler publish {id} did not complete with its PUBACK"),
        }
        assert!(
            poll_once(&mut op_a).is_pending(),
            "publish A completed although its PUBACK has not arrived"
        );
    }

    // Publish B reaches the wire with packet identifier 257.
    let mut op_b = publish("b");
    assert!(poll_once(&mut op_b).is_pending());
    assert!(poll_once(&mut run).is_pending());
    assert_eq!(publish_ids(&from_client.drain()), vec![257]);

    // The broker refuses B: PUBACK id 257, reason 0x87 (Not authorized), reason string "denied-B".
    let mut puback_b = vec![0x40, 15, 0x01, 0x01, 0x87, 11, 0x1f, 0x00, 0x08];
    puback_b.extend_from_slice(b"denied-B");
    to_client.push(&puback_b);
    assert!(poll_once(&mut run).is_pending());

    // A has not been acknowledged: it stays pending.
    assert!(
        poll_once(&mut op_a).is_pending(),
        "publish A (id 1) completed with the PUBACK addressed to publish B (id 257)"
    );

    // B completes with the content of its own acknowledgement.
    match poll_once(&mut op_b) {
        Poll::Ready(Err(MqttError::PubackError(err))) => {
            assert_eq!(err.reason(), PubackReason::NotAuthorized);
            assert_eq!(err.reason_string(), Some("denied-B"));
        }
        Poll::Ready(Ok(())) => panic!("publish B succeeded although the broker refused it"),
        Poll::Ready(Err(err)) => panic!("publish B failed with an unexpected error: {err}"),
        Poll::Pending => panic!("publish B is still pending although its PUBACK has arrived"),
    }

    // Finally the broker acknowledges A successfully.
    to_client.push(&[0x40, 0x02, 0x00, 0x01]);
    assert!(poll_once(&mut run).is_pending());
    match poll_once(&mut op_a) {
        Poll::Ready(Ok(())) => {}
        Poll::Ready(Err(err)) => panic!("publish A failed although the broker accepted it: {err}"),
        Poll::Pending => panic!("publish A is still pending although its PUBACK has arrived"),
    }
}
