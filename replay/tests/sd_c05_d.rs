//! C05 demonstration: pings complete one per PINGRESP, in issue order, also when
//! acknowledgements of other operations arrive in between.

use futures::{
    task::{noop_waker, Context as TaskContext, Poll},
    AsyncRead, AsyncWrite, Future,
};
use poster::{ConnectOpts, Context, SubscribeOpts, SubscriptionOpts};
use std::{
    collections::VecDeque,
    io,
    pin::Pin,
    sync::{Arc, Mutex},
};

#[derive(Clone, Default)]
struct Wire(Arc<Mutex<VecDeque<u8>>>);

impl Wire {
    fn push(&self, bytes: &[u8]) {
        self.0.lock().unwrap().extend(bytes.iter().copied());
    }
}

struct Rx(Wire);
struct Tx(Arc<Mutex<Vec<u8>>>);

impl AsyncRead for Rx {
    fn poll_read(
        self: Pin<&mut Self>,
        _cx: &mut TaskContext<'_>,
        buf: &mut [u8],
    ) -> Poll<io::Result<usize>> {
        let mut wire = self.0 .0.lock().unwrap();
        if wire.is_empty() {
            return Poll::Pending; // Polled by hand, no waker needed.
        }
        let n = buf.len().min(wire.len());
        for slot in buf.iter_mut().take(n) {
            *slot = wire.pop_front().unwrap();
        }
        Poll::Ready(Ok(n))
    }
}

impl AsyncWrite for Tx {
    fn poll_write(
        self: Pin<&mut Self>,
        _cx: &mut TaskContext<'_>,
        buf: &[u8],
    ) -> Poll<io::Result<usize>> {
        self.0.lock().unwrap().extend_from_slice(buf);
        Poll::Ready(Ok(buf.len()))
    }

    fn poll_flush(self: Pin<&mut Self>, _cx: &mut TaskContext<'_>) -> Poll<io::Result<()>> {
        Poll::Ready(Ok(()))
    }

    fn poll_close(self: Pin<&mut Self>, _cx: &mut TaskContext<'_>) -> Poll<io::Result<()>> {
        Poll::Ready(Ok(()))
    }
}

const CONNACK: [u8; 5] = [0x20, 0x03, 0x00, 0x00, 0x00];
const PINGRESP: [u8; 2] = [0xD0, 0x00];
const PINGREQ: [u8; 2] = [0xC0, 0x00];

fn poll_once<F: Future + ?Sized>(fut: Pin<&mut F>) -> Poll<F::Output> {
    let waker = noop_waker();
    let mut cx = TaskContext::from_waker(&waker);
    fut.poll(&mut cx)
}

/// Polls the context task until it has nothing left to do.
fn drive<F: Future + ?Sized>(mut run: Pin<&mut F>) {
    for _ in 0..16 {
        assert!(
            poll_once(run.as_mut()).is_pending(),
            "context task must keep running"
        );
    }
}

/// subscribe, ping A, ping B are outstanding; the broker answers SUBACK, then one PINGRESP.
/// The single PINGRESP belongs to ping A; ping B stays pending until the second one.
#[test]
fn pings_complete_in_issue_order_after_suback() {
    let wire = Wire::default();
    let sent = Arc::new(Mutex::new(Vec::new()));

    let (mut ctx, handle) = Context::new();
    ctx.set_up((Rx(wire.clone()), Tx(sent.clone())));

    wire.push(&CONNACK);
    futures::executor::block_on(ctx.connect(ConnectOpts::new())).unwrap();
    sent.lock().unwrap().clear();

    let mut run = Box::pin(ctx.run());

    let (mut h_sub, mut h_a, mut h_b) = (handle.clone(), handle.clone(), handle.clone());
    let mut sub = Box::pin(
        h_sub.subscribe(SubscribeOpts::new().subscription("a/b", SubscriptionOpts::new())),
    );
    let mut ping_a = Box::pin(h_a.ping());
    let mut ping_b = Box::pin(h_b.ping());

    // Issue order: subscribe (packet id 1), ping A, ping B.
    assert!(poll_once(sub.as_mut()).is_pending());
    assert!(poll_once(ping_a.as_mut()).is_pending());
    assert!(poll_once(ping_b.as_mut()).is_pending());
    drive(run.as_mut());

    {
        let sent = sent.lock().unwrap();
        assert_eq!(sent[0] >> 4, 8, "SUBSCRIBE goes first");
        assert_eq!(&sent[sent.len() - 4..], [PINGREQ, PINGREQ].concat().as_slice());
    }

    // SUBACK id 1, no properties, granted QoS 0.
    wire.push(&[0x90, 0x04, 0x00, 0x01, 0x00, 0x00]);
    drive(run.as_mut());

    assert!(matches!(poll_once(sub.as_mut()), Poll::Ready(Ok(_))));
    assert!(poll_once(ping_a.as_mut()).is_pending());
    assert!(poll_once(ping_b.as_mut()).is_pending());

    // First PINGRESP: ping A, and only ping A.
    wire.push(&PINGRESP);
    drive(run.as_mut());

    assert!(
        poll_once(ping_b.as_mut()).is_pending(),
        "ping B completed with the PINGRESP of ping A"
    );
    assert!(
        matches!(poll_once(ping_a.as_mut()), Poll::Ready(Ok(()))),
        "ping A did not complete with its PINGRESP"
    );

    // Second PINGRESP: ping B.
    wire.push(&PINGRESP);
    drive(run.as_mut());
    assert!(matches!(poll_once(ping_b.as_mut()), Poll::Ready(Ok(()))));
}

/// Three pings outstanding, answered one at a time.
#[test]
fn three_pings_complete_in_issue_order() {
    let wire = Wire::default();
    let sent = Arc::new(Mutex::new(Vec::new()));

    let (mut ctx, handle) = Context::new();
    ctx.set_up((Rx(wire.clone()), Tx(sent.clone())));

    wire.push(&CONNACK);
    futures::executor::block_on(ctx.connect(ConnectOpts::new())).unwrap();

    let mut run = Box::pin(ctx.run());

    let mut handles = [handle.clone(), handle.clone(), handle.clone()];
    let mut pings: Vec<_> = handles.iter_mut().map(|h| Box::pin(h.ping())).collect();

    for ping in pings.iter_mut() {
        assert!(poll_once(ping.as_mut()).is_pending());
    }
    drive(run.as_mut());

    for answered in 1..=3 {
        wire.push(&PINGRESP);
        drive(run.as_mut());

        // Later pings first, so that a wrongly completed one is seen before it is consumed.
        for idx in (answered..3).rev() {
            assert!(
                poll_once(pings[idx].as_mut()).is_pending(),
                "ping #{} completed after only {} PINGRESP",
                idx + 1,
                answered
            );
        }
        assert!(
            matches!(poll_once(pings[answered - 1].as_mut()), Poll::Ready(Ok(()))),
            "ping #{} still pending after {} PINGRESP",
            answered,
            answered
        );
    }
}
