//! Two pings are outstanding, then a QoS 1 publish is started. The broker acknowledges the
//! publish first and answers the pings afterwards. Pings must complete one per PINGRESP,
//! in the order they were issued.

use futures::{
    executor::LocalPool,
    io::{AsyncRead, AsyncWrite},
    task::LocalSpawnExt,
};
use poster::{ConnectOpts, Context, PublishOpts, QoS};
use std::{
    cell::RefCell,
    collections::VecDeque,
    io,
    pin::Pin,
    rc::Rc,
    task::{Context as TaskCx, Poll, Waker},
};

#[derive(Default)]
struct PipeInner {
    data: VecDeque<u8>,
    waker: Option<Waker>,
}

/// One direction of an in-memory connection.
#[derive(Clone, Default)]
struct Pipe(Rc<RefCell<PipeInner>>);

impl Pipe {
    fn feed(&self, bytes: &[u8]) {
        let mut inner = self.0.borrow_mut();
        inner.data.extend(bytes.iter().copied());
        if let Some(waker) = inner.waker.take() {
            waker.wake();
        }
    }

    fn drain(&self) -> Vec<u8> {
        self.0.borrow_mut().data.drain(..).collect()
    }
}

impl AsyncRead for Pipe {
    fn poll_read(
        self: Pin<&mut Self>,
        cx: &mut TaskCx<'_>,
        buf: &mut [u8],
    ) -> Poll<io::Result<usize>> {
        let mut inner = self.0.borrow_mut();
        if inner.data.is_empty() {
            inner.waker = Some(cx.waker().clone());
            return Poll::Pending;
        }
        let n = buf.len().min(inner.data.len());
        for slot in buf.iter_mut().take(n) {
            *slot = inner.data.pop_front().unwrap();
        }
        Poll::Ready(Ok(n))
    }
}

impl AsyncWrite for Pipe {
    fn poll_write(
        self: Pin<&mut Self>,
        _: &mut TaskCx<'_>,
        buf: &[u8],
    ) -> Poll<io::Result<usize>> {
        self.0.borrow_mut().data.extend(buf.iter().copied());
        Poll::Ready(Ok(buf.len()))
    }

    fn poll_flush(self: Pin<&mut Self>, _: &mut TaskCx<'_>) -> Poll<io::Result<()>> {
        Poll::Ready(Ok(()))
    }

    fn poll_close(self: Pin<&mut Self>, _: &mut TaskCx<'_>) -> Poll<io::Result<()>> {
        Poll::Ready(Ok(()))
    }
}

const CONNACK: [u8; 5] = [0x20, 0x03, 0x00, 0x00, 0x00];
const PINGREQ: [u8; 2] = [0xc0, 0x00];
const PINGRESP: [u8; 2] = [0xd0, 0x00];

#[test]
fn pings_complete_in_issue_order_when_a_later_publish_is_acknowledged_first() {
    let to_client = Pipe::default();
    let from_client = Pipe::default();

    let mut pool = LocalPool::new();
    let spawner = pool.spawner();
    let log: Rc<RefCell<Vec<&'static str>>> = Rc::default();

    let (mut ctx, handle) = Context::new();
    ctx.set_up((to_client.clone(), from_client.clone()));

    to_client.feed(&CONNACK);
    spawner
        .spawn_local(async move {
            ctx.connect(ConnectOpts::new().client_identifier("demo"))
                .await
                .expect("connect");
            let _ = ctx.run().await;
        })
        .unwrap();
    pool.run_until_stalled();
    let connect = from_client.drain();
    assert_eq!(connect[0], 0x10, "CONNECT expected first");

    // Operation 1: ping.
    let (mut h, l) = (handle.clone(), log.clone());
    spawner
        .spawn_local(async move {
            h.ping().await.expect("ping1");
            l.borrow_mut().push("ping1");
        })
        .unwrap();
    pool.run_until_stalled();
    assert_eq!(from_client.drain(), PINGREQ);

    // Operation 2: ping, from another clone of the handle.
    let (mut h, l) = (handle.clone(), log.clone());
    spawner
        .spawn_local(async move {
            h.ping().await.expect("ping2");
            l.borrow_mut().push("ping2");
        })
        .unwrap();
    pool.run_until_stalled();
    assert_eq!(from_client.drain(), PINGREQ);

    // Operation 3: QoS 1 publish.
    let (mut h, l) = (handle.clone(), log.clone());
    spawner
        .spawn_local(async move {
            h.publish(
                PublishOpts::new()
                    .topic_name("a/b")
                    .qos(QoS::AtLeastOnce)
                    .payload(b"x"),
            )
            .await
            .expect("publish");
            l.borrow_mut().push("publish");
        })
        .unwrap();
    pool.run_until_stalled();
    let publish = from_client.drain();
    assert_eq!(publish[0] >> 4, 3, "PUBLISH expected");
    assert_eq!((publish[0] >> 1) & 3, 1, "QoS 1 expected");
    // Fixed header, remaining length, topic (2 + 3 bytes), then the packet identifier.
    let (id_hi, id_lo) = (publish[7], publish[8]);
    assert!(log.borrow().is_empty(), "nothing has been acknowledged yet");

    // The broker acknowledges the publish first.
    to_client.feed(&[0x40, 0x02, id_hi, id_lo]);
    pool.run_until_stalled();
    assert_eq!(*log.borrow(), ["publish"]);

    // First PINGRESP: the first ping completes, the second one stays pending.
    to_client.feed(&PINGRESP);
    pool.run_until_stalled();
    assert_eq!(*log.borrow(), ["publish", "ping1"]);

    // Second PINGRESP: the second ping completes.
    to_client.feed(&PINGRESP);
    pool.run_until_stalled();
    assert_eq!(*log.borrow(), ["publish", "ping1", "ping2"]);
}
