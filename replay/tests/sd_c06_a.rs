//! C06 demonstration: an outbound QoS 2 publish must follow PUBLISH -> PUBREC -> PUBREL -> PUBCOMP
//! and report the outcome, whatever other operations are in flight on the same connection.
//!
//! The transport is an in-memory scripted wire; everything runs on a single-threaded
//! `futures::executor::LocalPool`, so every interleaving below is deterministic.

use futures::{
    executor::LocalPool,
    task::{noop_waker, LocalSpawnExt},
    AsyncRead, AsyncWrite,
};
use poster::{
    error::MqttError, ConnectOpts, Context, ContextHandle, PublishOpts, QoS, SubscribeOpts,
    SubscriptionOpts,
};
use std::{
    cell::RefCell,
    collections::VecDeque,
    future::Future,
    io,
    pin::Pin,
    rc::Rc,
    task::{Context as TaskContext, Poll, Waker},
};

// ---------------------------------------------------------------------------------------------
// Scripted in-memory transport
// ---------------------------------------------------------------------------------------------

#[derive(Default)]
struct WireState {
    inbound: VecDeque<u8>,
    outbound: Vec<u8>,
    rx_waker: Option<Waker>,
}

#[derive(Clone, Default)]
struct Wire(Rc<RefCell<WireState>>);

impl Wire {
    /// Broker -> client bytes.
    fn feed(&self, bytes: &[u8]) {
        let mut state = self.0.borrow_mut();
        state.inbound.extend(bytes.iter().copied());
        if let Some(waker) = state.rx_waker.take() {
            waker.wake();
        }
    }

    /// Takes everything the client has written so far, split into MQTT packets.
    fn take_packets(&self) -> Vec<Vec<u8>> {
        let bytes = std::mem::take(&mut self.0.borrow_mut().outbound);
        let mut packets = Vec::new();
        let mut pos = 0;
        while pos < bytes.len() {
            let start = pos;
            pos += 1;
            let (mut len, mut shift) = (0usize, 0);
            loop {
                let byte = bytes[pos];
                pos += 1;
                len |= ((byte & 0x7f) as usize) << shift;
                shift += 7;
                if byte & 0x80 == 0 {
                    break;
                }
            }
            pos += len;
            assert!(pos <= bytes.len(), "truncated packet on the wire");
            packets.push(bytes[start..pos].to_vec());
        }
        packets
    }
}

struct RxHalf(Wire);
struct TxHalf(Wire);

impl AsyncRead for RxHalf {
    fn poll_read(
        self: Pin<&mut Self>,
        cx: &mut TaskContext<'_>,
        buf: &mut [u8],
    ) -> Poll<io::Result<usize>> {
        let mut state = (self.0).0.borrow_mut();
        if state.inbound.is_empty() {
            state.rx_waker = Some(cx.waker().clone());
            return Poll::Pending;
        }
        let n = buf.len().min(state.inbound.len());
        for slot in buf.iter_mut().take(n) {
            *slot = state.inbound.pop_front().unwrap();
        }
        Poll::Ready(Ok(n))
    }
}

impl AsyncWrite for TxHalf {
    fn poll_write(
        self: Pin<&mut Self>,
        _: &mut TaskContext<'_>,
        buf: &[u8],
    ) -> Poll<io::Result<usize>> {
        (self.0).0.borrow_mut().outbound.extend_from_slice(buf);
        Poll::Ready(Ok(buf.len()))
    }

    fn poll_flush(self: Pin<&mut Self>, _: &mut TaskContext<'_>) -> Poll<io::Result<()>> {
        Poll::Ready(Ok(()))
    }

    fn poll_close(self: Pin<&mut Self>, _: &mut TaskContext<'_>) -> Poll<io::Result<()>> {
        Poll::Ready(Ok(()))
    }
}

// ---------------------------------------------------------------------------------------------
// Harness
// ---------------------------------------------------------------------------------------------

type Slot<T> = Rc<RefCell<Option<T>>>;

struct Harness {
    pool: LocalPool,
    wire: Wire,
    handle: ContextHandle,
    run_result: Slot<Result<(), MqttError>>,
}

impl Harness {
    /// Connects (plain CONNACK, no properties) and starts serving the connection.
    fn connected() -> Self {
        let mut pool = LocalPool::new();
        let wire = Wire::default();
        let (mut ctx, handle) = Context::new();
        ctx.set_up((RxHalf(wire.clone()), TxHalf(wire.clone())));

        wire.feed(&[0x20, 0x03, 0x00, 0x00, 0x00]);
        pool.run_until(ctx.connect(ConnectOpts::new()))
            .expect("connect failed");
        let connect = wire.take_packets();
        assert_eq!(connect.len(), 1);
        assert_eq!(connect[0][0], 0x10, "CONNECT expected");

        let run_result: Slot<Result<(), MqttError>> = Rc::default();
        let slot = run_result.clone();
        pool.spawner()
            .spawn_local(async move {
                let res = ctx.run().await;
                *slot.borrow_mut() = Some(res);
            })
            .unwrap();
        pool.run_until_stalled();

        Self {
            pool,
            wire,
            handle,
            run_result,
        }
    }

    fn settle(&mut self) -> Vec<Vec<u8>> {
        self.pool.run_until_stalled();
        assert!(
            self.run_result.borrow().is_none(),
            "run() ended unexpectedly: {:?}",
            self.run_result.borrow()
        );
        self.wire.take_packets()
    }

    /// Starts a QoS 2 publish of `payload` to topic "t" as its own task.
    fn spawn_qos2_publish(&mut self, payload: &'static [u8]) -> Slot<Result<(), MqttError>> {
        let result: Slot<Result<(), MqttError>> = Rc::default();
        let slot = result.clone();
        let mut handle = self.handle.clone();
        self.pool
            .spawner()
            .spawn_local(async move {
                let res = handle
                    .publish(
                        PublishOpts::new()
                            .qos(QoS::ExactlyOnce)
                            .topic_name("t")
                            .payload(payload),
                    )
                    .await;
                *slot.borrow_mut() = Some(res);
            })
            .unwrap();
        result
    }
}

/// Polls `fut` exactly once; it must not complete yet.
fn poll_once_pending<F: Future + ?Sized>(fut: &mut Pin<Box<F>>) {
    let waker = noop_waker();
    let mut cx = TaskContext::from_waker(&waker);
    assert!(fut.as_mut().poll(&mut cx).is_pending());
}

/// Checks the single PUBLISH (QoS 2, DUP=0, RETAIN=0, topic "t", no properties) and returns its id.
fn expect_qos2_publish(packets: &[Vec<u8>], payload: &[u8]) -> [u8; 2] {
    assert_eq!(packets.len(), 1, "exactly one PUBLISH expected: {packets:02x?}");
    let publish = &packets[0];
    assert_eq!(publish[0], 0x34, "PUBLISH, DUP=0, QoS=2, RETAIN=0");
    assert_eq!(publish[1] as usize, publish.len() - 2);
    assert_eq!(&publish[2..5], &[0x00, 0x01, b't']);
    let id = [publish[5], publish[6]];
    assert_ne!(id, [0, 0]);
    assert_eq!(publish[7], 0x00, "no properties");
    assert_eq!(&publish[8..], payload);
    id
}

/// Drives the rest of the QoS 2 handshake and checks what C06 promises about it.
fn finish_qos2(h: &mut Harness, id: [u8; 2], result: &Slot<Result<(), MqttError>>) {
    // PUBREC, reason 0x00 (short form).
    h.wire.feed(&[0x50, 0x02, id[0], id[1]]);
    let packets = h.settle();
    assert_eq!(
        packets,
        vec![vec![0x62, 0x02, id[0], id[1]]],
        "exactly one PUBREL with the PUBLISH's identifier must follow a successful PUBREC"
    );
    assert!(
        result.borrow().is_none(),
        "publish() must not complete before PUBCOMP"
    );

    // PUBCOMP, reason 0x00.
    h.wire.feed(&[0x70, 0x02, id[0], id[1]]);
    let packets = h.settle();
    assert!(packets.is_empty(), "nothing is sent after PUBCOMP: {packets:02x?}");
    assert!(
        matches!(*result.borrow(), Some(Ok(()))),
        "publish() must succeed on PUBCOMP, got {:?}",
        result.borrow()
    );
}

// ---------------------------------------------------------------------------------------------
// Tests
// ---------------------------------------------------------------------------------------------

/// Control: the handshake on an otherwise idle connection.
#[test]
fn qos2_publish_alone() {
    let mut h = Harness::connected();

    let result = h.spawn_qos2_publish(b"hello");
    let id = expect_qos2_publish(&h.settle(), b"hello");

    finish_qos2(&mut h, id, &result);
}

/// The same handshake while a SUBSCRIBE issued earlier has not been answered yet.
#[test]
fn qos2_publish_while_subscribe_is_pending() {
    let mut h = Harness::connected();

    // SUBSCRIBE goes out first; the broker takes its time with the SUBACK.
    let mut sub_handle = h.handle.clone();
    let mut subscribe = Box::pin(async move {
        sub_handle
            .subscribe(SubscribeOpts::new().subscription("a/b", SubscriptionOpts::new()))
            .await
    });
    poll_once_pending(&mut subscribe);
    let packets = h.settle();
    assert_eq!(packets.len(), 1);
    assert_eq!(packets[0][0], 0x82, "SUBSCRIBE expected");
    let sub_id = [packets[0][2], packets[0][3]];

    let result = h.spawn_qos2_publish(b"hello");
    let id = expect_qos2_publish(&h.settle(), b"hello");
    assert_ne!(id, sub_id);

    finish_qos2(&mut h, id, &result);

    // The late SUBACK still completes the subscription.
    h.wire.feed(&[0x90, 0x04, sub_id[0], sub_id[1], 0x00, 0x00]);
    assert!(h.settle().is_empty());
    let waker = noop_waker();
    let mut cx = TaskContext::from_waker(&waker);
    match subscribe.as_mut().poll(&mut cx) {
        Poll::Ready(Ok(_)) => {}
        Poll::Ready(Err(err)) => panic!("subscribe failed: {err:?}"),
        Poll::Pending => panic!("subscribe still pending after SUBACK"),
    }
}

/// The same handshake while a PINGREQ issued earlier has not been answered yet.
#[test]
fn qos2_publish_while_ping_is_pending() {
    let mut h = Harness::connected();

    let mut ping_handle = h.handle.clone();
    let mut ping = Box::pin(async move { ping_handle.ping().await });
    poll_once_pending(&mut ping);
    assert_eq!(h.settle(), vec![vec![0xc0, 0x00]], "PINGREQ expected");

    let result = h.spawn_qos2_publish(b"world");
    let id = expect_qos2_publish(&h.settle(), b"world");

    finish_qos2(&mut h, id, &result);

    // The late PINGRESP still completes the ping.
    h.wire.feed(&[0xd0, 0x00]);
    assert!(h.settle().is_empty());
    let waker = noop_waker();
    let mut cx = TaskContext::from_waker(&waker);
    match ping.as_mut().poll(&mut cx) {
        Poll::Ready(Ok(())) => {}
        Poll::Ready(Err(err)) => panic!("ping failed: {err:?}"),
        Poll::Pending => panic!("ping still pending after PINGRESP"),
    }
}
