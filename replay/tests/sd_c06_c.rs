//! Demonstration for property C06 (outbound QoS 1/2 publishes follow the MQTT handshake
//! and report its outcome).
//!
//! MQTT 5 allows PUBACK/PUBREC/PUBCOMP to be sent in a three byte form of the variable
//! header: packet identifier followed by the reason code, with the property length left out
//! (remaining length == 3). A failing reason delivered that way must make `publish()` fail
//! with the matching error, and after a failing PUBREC no PUBREL may be sent.

use futures::{
    executor::LocalPool,
    task::LocalSpawnExt,
    AsyncRead, AsyncWrite,
};
use poster::{
    error::MqttError,
    reason::{PubackReason, PubrecReason},
    ConnectOpts, Context, PublishOpts, QoS,
};
use std::{
    cell::RefCell,
    collections::VecDeque,
    io,
    pin::Pin,
    rc::Rc,
    task::{Context as TaskContext, Poll, Waker},
};

#[derive(Default)]
struct Wire {
    to_client: VecDeque<u8>,
    reader: Option<Waker>,
    from_client: Vec<u8>,
}

#[derive(Clone, Default)]
struct Broker(Rc<RefCell<Wire>>);

impl Broker {
    fn send(&self, bytes: &[u8]) {
        let mut wire = self.0.borrow_mut();
        wire.to_client.extend(bytes.iter().copied());
        if let Some(waker) = wire.reader.take() {
            waker.wake();
        }
    }

    /// Takes everything the client has written so far.
    fn take_written(&self) -> Vec<u8> {
        std::mem::take(&mut self.0.borrow_mut().from_client)
    }
}

struct Rx(Broker);
struct Tx(Broker);

impl AsyncRead for Rx {
    fn poll_read(
        self: Pin<&mut Self>,
        cx: &mut TaskContext<'_>,
        buf: &mut [u8],
    ) -> Poll<io::Result<usize>> {
        let mut wire = (self.0).0.borrow_mut();
        if wire.to_client.is_empty() {
            wire.reader = Some(cx.waker().clone());
            return Poll::Pending;
        }

        let mut n = 0;
        while n < buf.len() {
            match wire.to_client.pop_front() {
                Some(byte) => {
                    buf[n] = byte;
                    n += 1;
                }
                None => break,
            }
        }
        Poll::Ready(Ok(n))
    }
}

impl AsyncWrite for Tx {
    fn poll_write(
        self: Pin<&mut Self>,
        _: &mut TaskContext<'_>,
        buf: &[u8],
    ) -> Poll<io::Result<usize>> {
        (self.0).0.borrow_mut().from_client.extend_from_slice(buf);
        Poll::Ready(Ok(buf.len()))
    }

    fn poll_flush(self: Pin<&mut Self>, _: &mut TaskContext<'_>) -> Poll<io::Result<()>> {
        Poll::Ready(Ok(()))
    }

    fn poll_close(self: Pin<&mut Self>, _: &mut TaskContext<'_>) -> Poll<io::Result<()>> {
        Poll::Ready(Ok(()))
    }
}

/// Splits a byte log into MQTT packets (all remaining lengths here fit in one byte).
fn packets(mut bytes: &[u8]) -> Vec<Vec<u8>> {
    let mut out = Vec::new();
    while !bytes.is_empty() {
        assert!(bytes[1] < 0x80);
        let len = 2 + bytes[1] as usize;
        out.push(bytes[..len].to_vec());
        bytes = &bytes[len..];
    }
    out
}

const CONNACK: [u8; 5] = [0x20, 0x03, 0x00, 0x00, 0x00];

/// Connects, publishes one message with `qos`, answers the PUBLISH with `answer` and returns
/// the outcome of `publish()` (None when it has not completed) together with every packet the
/// client wrote after the PUBLISH.
fn exchange(qos: QoS, answer: &[u8]) -> (Option<Result<(), MqttError>>, Vec<Vec<u8>>) {
    let broker = Broker::default();
    let mut pool = LocalPool::new();
    let spawner = pool.spawner();

    let (mut ctx, mut handle) = Context::new();
    ctx.set_up((Rx(broker.clone()), Tx(broker.clone())));
    broker.send(&CONNACK);

    spawner
        .spawn_local(async move {
            ctx.connect(ConnectOpts::new()).await.unwrap();
            let _ = ctx.run().await;
        })
        .unwrap();

    let outcome = Rc::new(RefCell::new(None));
    let outcome_slot = outcome.clone();
    spawner
        .spawn_local(async move {
            let res = handle
                .publish(
                    PublishOpts::new()
                        .topic_name("a/b")
                        .qos(qos)
                        .payload(b"hello"),
                )
                .await;
            *outcome_slot.borrow_mut() = Some(res);
        })
        .unwrap();

    pool.run_until_stalled();

    // CONNECT followed by exactly one PUBLISH with packet identifier 1.
    let written = packets(&broker.take_written());
    assert_eq!(written.len(), 2, "CONNECT and PUBLISH expected");
    assert_eq!(written[0][0] >> 4, 1);
    let publish = &written[1];
    let qos_bits = match qos {
        QoS::AtMostOnce => 0,
        QoS::AtLeastOnce => 1,
        QoS::ExactlyOnce => 2,
    };
    assert_eq!(publish[0], 0x30 | (qos_bits << 1), "DUP=0, RETAIN=0");
    assert_eq!(&publish[2..7], &[0x00, 0x03, b'a', b'/', b'b']);
    assert_eq!(&publish[7..9], &[0x00, 0x01], "packet identifier 1");
    assert!(outcome.borrow().is_none());

    broker.send(answer);
    pool.run_until_stalled();

    let after = packets(&broker.take_written());
    let result = outcome.borrow_mut().take();
    (result, after)
}

/// Control: the four byte form (reason + empty property list) of a failing PUBREC.
#[test]
fn qos2_failing_pubrec_long_form() {
    let (outcome, after) = exchange(QoS::ExactlyOnce, &[0x50, 0x04, 0x00, 0x01, 0x80, 0x00]);

    assert!(after.is_empty(), "nothing follows a failing PUBREC: {:x?}", after);
    match outcome {
        Some(Err(MqttError::PubrecError(err))) => {
            assert_eq!(err.reason(), PubrecReason::UnspecifiedError)
        }
        other => panic!("expected PubrecError, got {:?}", other),
    }
}

/// The three byte form (identifier + reason, property length omitted) of a failing PUBREC.
#[test]
fn qos2_failing_pubrec_short_form() {
    let (outcome, after) = exchange(QoS::ExactlyOnce, &[0x50, 0x03, 0x00, 0x01, 0x80]);

    assert!(
        after.iter().all(|packet| packet[0] >> 4 != 6),
        "PUBREL sent after a failing PUBREC: {:x?}",
        after
    );
    assert!(after.is_empty(), "nothing follows a failing PUBREC: {:x?}", after);
    match outcome {
        Some(Err(MqttError::PubrecError(err))) => {
            assert_eq!(err.reason(), PubrecReason::UnspecifiedError)
        }
        other => panic!("expected PubrecError, got {:?}", other),
    }
}

/// The three byte form of a failing PUBACK.
#[test]
fn qos1_failing_puback_short_form() {
    let (outcome, after) = exchange(QoS::AtLeastOnce, &[0x40, 0x03, 0x00, 0x01, 0x87]);

    assert!(after.is_empty());
    match outcome {
        Some(Err(MqttError::PubackError(err))) => {
            assert_eq!(err.reason(), PubackReason::NotAuthorized)
        }
        other => panic!("expected PubackError, got {:?}", other),
    }
}

/// The three byte form of a successful PUBREC with a non-zero reason: the handshake goes on.
#[test]
fn qos2_no_matching_subscribers_short_form() {
    let (outcome, after) = exchange(QoS::ExactlyOnce, &[0x50, 0x03, 0x00, 0x01, 0x10]);

    assert!(outcome.is_none(), "PUBCOMP has not arrived yet");
    assert_eq!(after, vec![vec![0x62, 0x02, 0x00, 0x01]], "exactly one PUBREL, same identifier");
}
