//! Demonstration for property C06 (outbound QoS 1 publishes report the outcome of *their own*
//! PUBACK), exercised while another, unrelated operation (a SUBSCRIBE) is still outstanding.
//!
//! Scenario (all packets are legal MQTT 5):
//!   1. subscribe()           -> SUBSCRIBE id 1 written, SUBACK withheld for now
//!   2. publish(A, QoS 1)     -> PUBLISH id 2 written
//!   3. publish(B, QoS 1)     -> PUBLISH id 3 written
//!   4. broker: PUBACK id 3, reason 0x87 (Not authorized)  => B must fail with 0x87, A stays pending
//!   5. broker: PUBACK id 2, reason 0x00                   => A must succeed
//!   6. broker: SUBACK id 1                                => subscribe() completes

use std::{
    cell::RefCell,
    collections::VecDeque,
    io,
    pin::Pin,
    rc::Rc,
    task::{Context as TaskContext, Poll, Waker},
};

use futures::{
    executor::LocalPool,
    task::LocalSpawnExt,
    AsyncRead, AsyncWrite,
};
use poster::{
    error::MqttError, reason::PubackReason, ConnectOpts, Context, PublishOpts, QoS, SubscribeOpts,
    SubscriptionOpts,
};

#[derive(Default)]
struct Wire {
    inbound: VecDeque<u8>,
    outbound: Vec<u8>,
    rx_waker: Option<Waker>,
}

#[derive(Clone, Default)]
struct Link(Rc<RefCell<Wire>>);

impl Link {
    /// The broker sends `bytes` to the client.
    fn feed(&self, bytes: &[u8]) {
        let mut wire = self.0.borrow_mut();
        wire.inbound.extend(bytes.iter().copied());
        if let Some(waker) = wire.rx_waker.take() {
            waker.wake();
        }
    }

    /// Everything the client has written since the last call.
    fn take_written(&self) -> Vec<u8> {
        std::mem::take(&mut self.0.borrow_mut().outbound)
    }
}

struct Rx(Link);
struct Tx(Link);

impl AsyncRead for Rx {
    fn poll_read(
        self: Pin<&mut Self>,
        cx: &mut TaskContext<'_>,
        buf: &mut [u8],
    ) -> Poll<io::Result<usize>> {
        let mut wire = (self.0).0.borrow_mut();
        if wire.inbound.is_empty() {
            wire.rx_waker = Some(cx.waker().clone());
            return Poll::Pending;
        }

        let mut n = 0;
        while n < buf.len() {
            match wire.inbound.pop_front() {
                Some(byte) => {
                    buf[n] = byte;
                    n += 1;
                }
                None => break,
            }
        }
        Poll::Ready(Ok(n))
    }
}

impl AsyncWrite for Tx {
    fn poll_write(
        self: Pin<&mut Self>,
        _: &mut TaskContext<'_>,
        buf: &[u8],
    ) -> Poll<io::Result<usize>> {
        (self.0).0.borrow_mut().outbound.extend_from_slice(buf);
        Poll::Ready(Ok(buf.len()))
    }

    fn poll_flush(self: Pin<&mut Self>, _: &mut TaskContext<'_>) -> Poll<io::Result<()>> {
        Poll::Ready(Ok(()))
    }

    fn poll_close(self: Pin<&mut Self>, _: &mut TaskContext<'_>) -> Poll<io::Result<()>> {
        Poll::Ready(Ok(()))
    }
}

/// Outcome of a publish, reduced to what the property talks about.
#[derive(Debug, PartialEq, Clone, Copy)]
enum Outcome {
    Success,
    PubackFailure(u8),
    Other,
}

fn outcome(res: Result<(), MqttError>) -> Outcome {
    match res {
        Ok(()) => Outcome::Success,
        Err(MqttError::PubackError(err)) => Outcome::PubackFailure(err.reason() as u8),
        Err(_) => Outcome::Other,
    }
}

/// Splits a byte stream into MQTT packets (all of them are short here: one length byte).
fn packets(mut bytes: &[u8]) -> Vec<Vec<u8>> {
    let mut out = Vec::new();
    while !bytes.is_empty() {
        assert!(bytes[1] < 0x80, "short packets only");
        let len = 2 + bytes[1] as usize;
        out.push(bytes[..len].to_vec());
        bytes = &bytes[len..];
    }
    out
}

#[test]
fn qos1_publish_reports_its_own_puback_while_a_subscribe_is_outstanding() {
    let link = Link::default();
    let mut pool = LocalPool::new();
    let spawner = pool.spawner();

    let (mut ctx, handle) = Context::new();
    ctx.set_up((Rx(link.clone()), Tx(link.clone())));

    // CONNACK, success, no properties.
    link.feed(&[0x20, 0x03, 0x00, 0x00, 0x00]);
    pool.run_until(ctx.connect(ConnectOpts::new()))
        .expect("connect");
    link.take_written();

    spawner
        .spawn_local(async move {
            let _ = ctx.run().await;
        })
        .unwrap();

    // 1. SUBSCRIBE (packet identifier 1); the SUBACK is withheld.
    let sub_done = Rc::new(RefCell::new(false));
    {
        let mut handle = handle.clone();
        let sub_done = sub_done.clone();
        spawner
            .spawn_local(async move {
                let rsp = handle
                    .subscribe(SubscribeOpts::new().subscription("s/#", SubscriptionOpts::new()))
                    .await;
                assert!(rsp.is_ok());
                *sub_done.borrow_mut() = true;
            })
            .unwrap();
    }
    pool.run_until_stalled();

    // 2. and 3. two QoS 1 publishes (packet identifiers 2 and 3).
    let res_a: Rc<RefCell<Option<Outcome>>> = Rc::new(RefCell::new(None));
    let res_b: Rc<RefCell<Option<Outcome>>> = Rc::new(RefCell::new(None));

    for (topic, slot) in [("t/a", res_a.clone()), ("t/b", res_b.clone())] {
        let mut handle = handle.clone();
        spawner
            .spawn_local(async move {
                let res = handle
                    .publish(
                        PublishOpts::new()
                            .topic_name(topic)
                            .qos(QoS::AtLeastOnce)
                            .payload(b"x"),
                    )
                    .await;
                *slot.borrow_mut() = Some(outcome(res));
            })
            .unwrap();
        pool.run_until_stalled();
    }

    let written = packets(&link.take_written());
    assert_eq!(written.len(), 3, "SUBSCRIBE and two PUBLISH packets");
    assert_eq!(written[0][0], 0x82, "SUBSCRIBE");
    assert_eq!(&written[0][2..4], &[0x00, 0x01], "SUBSCRIBE id 1");
    assert_eq!(written[1][0], 0x32, "PUBLISH QoS 1, DUP=0, RETAIN=0");
    assert_eq!(&written[1][2..9], &[0x00, 0x03, b't', b'/', b'a', 0x00, 0x02]);
    assert_eq!(written[2][0], 0x32, "PUBLISH QoS 1, DUP=0, RETAIN=0");
    assert_eq!(&written[2][2..9], &[0x00, 0x03, b't', b'/', b'b', 0x00, 0x03]);

    assert_eq!(*res_a.borrow(), None);
    assert_eq!(*res_b.borrow(), None);

    // 4. PUBACK for B (id 3) with reason 0x87, Not authorized.
    link.feed(&[0x40, 0x03, 0x00, 0x03, 0x87]);
    pool.run_until_stalled();

    assert_eq!(
        *res_a.borrow(),
        None,
        "publish A has not been acknowledged yet, it must still be pending"
    );
    assert_eq!(
        *res_b.borrow(),
        Some(Outcome::PubackFailure(PubackReason::NotAuthorized as u8)),
        "publish B fails with the reason of its own PUBACK"
    );

    // 5. PUBACK for A (id 2), success.
    link.feed(&[0x40, 0x02, 0x00, 0x02]);
    pool.run_until_stalled();

    assert_eq!(
        *res_a.borrow(),
        Some(Outcome::Success),
        "publish A succeeds: its PUBACK carried reason 0x00"
    );
    assert_eq!(
        *res_b.borrow(),
        Some(Outcome::PubackFailure(PubackReason::NotAuthorized as u8))
    );

    // 6. SUBACK id 1, no properties, granted QoS 0.
    link.feed(&[0x90, 0x04, 0x00, 0x01, 0x00, 0x00]);
    pool.run_until_stalled();
    assert!(*sub_done.borrow(), "subscribe completes on its SUBACK");

    // Nothing but the three requests was ever written (no PUBLISH was repeated).
    assert!(link.take_written().is_empty());
}
