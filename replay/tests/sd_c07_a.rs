//! Demonstration for property C07 (inbound messages reach exactly their subscription's
//! stream(s), in order, intact; streams are unaffected by other streams being dropped and
//! end only when the context is gone).
//!
//! Scenario: three subscriptions A, B, C are made one after another. The user drops A's
//! stream. The broker, which cannot know that, keeps forwarding a message for A and then
//! sends messages for B and C. B's and C's streams must still yield their messages.
//!
//! Only the public API is used; the transport is an in-memory scripted "broker".

use futures::{
    executor::LocalPool, task::LocalSpawnExt, AsyncRead, AsyncWrite, StreamExt,
};
use poster::{ConnectOpts, Context, QoS, SubscribeOpts, SubscriptionOpts};
use std::{
    cell::RefCell,
    collections::VecDeque,
    io,
    pin::Pin,
    rc::Rc,
    sync::{Arc, Mutex},
    task::{Context as TaskCx, Poll, Waker},
};

// ---------------------------------------------------------------------------------------
// In-memory transport
// ---------------------------------------------------------------------------------------

#[derive(Default)]
struct Wire {
    /// Chunks the client will read (each chunk is handed out by one `poll_read`).
    inbound: VecDeque<Vec<u8>>,
    /// Waker of the client's pending read, if any.
    reader: Option<Waker>,
    /// Everything the client wrote, one entry per `poll_write`.
    written: Vec<Vec<u8>>,
    /// Subscription identifiers seen in SUBSCRIBE packets, in order.
    sub_ids: Vec<u32>,
}

#[derive(Clone, Default)]
struct Net(Arc<Mutex<Wire>>);

impl Net {
    fn feed(&self, bytes: Vec<u8>) {
        let mut wire = self.0.lock().unwrap();
        wire.inbound.push_back(bytes);
        if let Some(waker) = wire.reader.take() {
            waker.wake();
        }
    }

    fn sub_ids(&self) -> Vec<u32> {
        self.0.lock().unwrap().sub_ids.clone()
    }
}

struct Rx(Net);
struct Tx(Net);

impl AsyncRead for Rx {
    fn poll_read(
        self: Pin<&mut Self>,
        cx: &mut TaskCx<'_>,
        buf: &mut [u8],
    ) -> Poll<io::Result<usize>> {
        let mut wire = self.0 .0.lock().unwrap();
        match wire.inbound.pop_front() {
            Some(mut chunk) => {
                let n = chunk.len().min(buf.len());
                buf[..n].copy_from_slice(&chunk[..n]);
                if n < chunk.len() {
                    let rest = chunk.split_off(n);
                    wire.inbound.push_front(rest);
                }
                Poll::Ready(Ok(n))
            }
            None => {
                wire.reader = Some(cx.waker().clone());
                Poll::Pending
            }
        }
    }
}

fn decode_varint(bytes: &[u8]) -> (u32, usize) {
    let mut val = 0u32;
    let mut mult = 1u32;
    for (idx, b) in bytes.iter().enumerate() {
        val += (*b as u32 & 0x7f) * mult;
        mult *= 128;
        if b & 0x80 == 0 {
            return (val, idx + 1);
        }
    }
    panic!("bad varint");
}

fn encode_varint(mut val: u32) -> Vec<u8> {
    let mut out = Vec::new();
    loop {
        let mut b = (val % 128) as u8;
        val /= 128;
        if val > 0 {
            b |= 0x80;
        }
        out.push(b);
        if val == 0 {
            return out;
        }
    }
}

impl AsyncWrite for Tx {
    fn poll_write(
        self: Pin<&mut Self>,
        _cx: &mut TaskCx<'_>,
        buf: &[u8],
    ) -> Poll<io::Result<usize>> {
        let mut wire = self.0 .0.lock().unwrap();
        wire.written.push(buf.to_vec());

        // The scripted broker acknowledges every SUBSCRIBE right away (one granted-QoS-0
        // reason code per topic filter is enough for the single-filter subscriptions used here).
        if buf[0] >> 4 == 8 {
            let (_, len_len) = decode_varint(&buf[1..]);
            let body = &buf[1 + len_len..];
            let (pid_hi, pid_lo) = (body[0], body[1]);
            let (prop_len, prop_len_len) = decode_varint(&body[2..]);
            let props = &body[2 + prop_len_len..2 + prop_len_len + prop_len as usize];
            assert_eq!(props[0], 0x0b, "SUBSCRIBE must carry a subscription identifier");
            let (sub_id, _) = decode_varint(&props[1..]);
            wire.sub_ids.push(sub_id);

            wire.inbound
                .push_back(vec![0x90, 0x04, pid_hi, pid_lo, 0x00, 0x00]);
            if let Some(waker) = wire.reader.take() {
                waker.wake();
            }
        }

        Poll::Ready(Ok(buf.len()))
    }

    fn poll_flush(self: Pin<&mut Self>, _cx: &mut TaskCx<'_>) -> Poll<io::Result<()>> {
        Poll::Ready(Ok(()))
    }

    fn poll_close(self: Pin<&mut Self>, _cx: &mut TaskCx<'_>) -> Poll<io::Result<()>> {
        Poll::Ready(Ok(()))
    }
}

/// QoS 0 PUBLISH carrying one subscription identifier.
fn publish(topic: &str, sub_id: u32, payload: &[u8]) -> Vec<u8> {
    let mut props = vec![0x0b];
    props.extend(encode_varint(sub_id));

    let mut body = Vec::new();
    body.extend((topic.len() as u16).to_be_bytes());
    body.extend(topic.as_bytes());
    body.extend(encode_varint(props.len() as u32));
    body.extend(props);
    body.extend(payload);

    let mut packet = vec![0x30];
    packet.extend(encode_varint(body.len() as u32));
    packet.extend(body);
    packet
}

// ---------------------------------------------------------------------------------------
// The demonstration
// ---------------------------------------------------------------------------------------

#[test]
fn dropping_one_stream_does_not_disturb_the_others() {
    let net = Net::default();
    let (mut ctx, handle) = Context::new();
    ctx.set_up((Rx(net.clone()), Tx(net.clone())));

    let mut pool = LocalPool::new();
    let spawner = pool.spawner();

    // CONNECT / CONNACK (success, no properties).
    net.feed(vec![0x20, 0x03, 0x00, 0x00, 0x00]);
    pool.run_until(ctx.connect(ConnectOpts::new())).unwrap();

    // The context serves the connection for the rest of the test; it is never dropped
    // before the assertions below have been made.
    let run_result = Rc::new(RefCell::new(None));
    {
        let run_result = run_result.clone();
        spawner
            .spawn_local(async move {
                let res = ctx.run().await;
                *run_result.borrow_mut() = Some(res.map_err(|e| format!("{e:?}")));
                // Keep the context alive even if run() returned.
                futures::future::pending::<()>().await;
                drop(ctx);
            })
            .unwrap();
    }

    let finished = Rc::new(RefCell::new(false));
    {
        let finished = finished.clone();
        let net = net.clone();
        let mut handle = handle.clone();
        spawner
            .spawn_local(async move {
                let a = handle
                    .subscribe(SubscribeOpts::new().subscription("a", SubscriptionOpts::new()))
                    .await
                    .unwrap();
                let b = handle
                    .subscribe(SubscribeOpts::new().subscription("b", SubscriptionOpts::new()))
                    .await
                    .unwrap();
                let c = handle
                    .subscribe(SubscribeOpts::new().subscription("c", SubscriptionOpts::new()))
                    .await
                    .unwrap();

                let ids = net.sub_ids();
                assert_eq!(ids.len(), 3);
                let (id_a, id_b, id_c) = (ids[0], ids[1], ids[2]);
                assert!(id_a != id_b && id_b != id_c && id_a != id_c);

                let stream_a = a.stream();
                let mut stream_b = b.stream();
                let mut stream_c = c.stream();

                // All three streams work.
                net.feed(publish("a", id_a, b"a0"));
                net.feed(publish("b", id_b, b"b0"));
                net.feed(publish("c", id_c, b"c0"));

                let mut stream_a = stream_a;
                assert_eq!(stream_a.next().await.unwrap().payload(), b"a0");
                assert_eq!(stream_b.next().await.unwrap().payload(), b"b0");
                assert_eq!(stream_c.next().await.unwrap().payload(), b"c0");

                // The user loses interest in A only.
                drop(stream_a);

                // The broker still forwards a message for A, then messages for B and C.
                net.feed(publish("a", id_a, b"a1"));
                net.feed(publish("b", id_b, b"b1"));
                net.feed(publish("c", id_c, b"c1"));
                net.feed(publish("b", id_b, b"b2"));

                let msg = stream_b
                    .next()
                    .await
                    .expect("stream B ended although only stream A was dropped");
                assert_eq!(msg.topic_name(), "b");
                assert_eq!(msg.payload(), b"b1");
                assert_eq!(msg.qos(), QoS::AtMostOnce);
                assert!(!msg.dup() && !msg.retain());

                let msg = stream_b
                    .next()
                    .await
                    .expect("stream B ended although only stream A was dropped");
                assert_eq!(msg.payload(), b"b2");

                let msg = stream_c
                    .next()
                    .await
                    .expect("stream C ended although only stream A was dropped");
                assert_eq!(msg.topic_name(), "c");
                assert_eq!(msg.payload(), b"c1");

                *finished.borrow_mut() = true;
            })
            .unwrap();
    }

    pool.run_until_stalled();

    assert!(
        run_result.borrow().is_none(),
        "run() returned unexpectedly: {:?}",
        run_result.borrow()
    );
    assert!(
        *finished.borrow(),
        "scenario stalled: some message was never delivered to its stream"
    );
    drop(handle);
}
