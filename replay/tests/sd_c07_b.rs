//! Demonstration for C07: every inbound PUBLISH reaches exactly the stream of the
//! subscribe() call whose subscription identifier it carries.
//!
//! A tiny in-memory "broker" is scripted behind the transport: it answers CONNECT, SUBSCRIBE,
//! UNSUBSCRIBE, PUBLISH (QoS 1) and PINGREQ, remembers which subscription identifier the client
//! put into each SUBSCRIBE, and lets the test inject PUBLISH packets carrying exactly those
//! identifiers (as a real broker would).

use futures::{
    executor::block_on, future::FutureExt, pin_mut, select, stream::StreamExt, AsyncRead,
    AsyncWrite,
};
use poster::{
    ConnectOpts, Context, PublishOpts, QoS, SubscribeOpts, SubscriptionOpts, UnsubscribeOpts,
};
use std::{
    collections::VecDeque,
    io,
    pin::Pin,
    sync::{Arc, Mutex},
    task::{Context as TaskContext, Poll, Waker},
};

#[derive(Default)]
struct Broker {
    /// Bytes waiting to be read by the client.
    to_client: VecDeque<u8>,
    reader: Option<Waker>,
    /// Bytes written by the client, not yet forming a whole packet.
    from_client: Vec<u8>,
    /// (topic filter, subscription identifier) of every SUBSCRIBE seen.
    subscriptions: Vec<(String, u32)>,
}

fn decode_varint(buf: &[u8]) -> Option<(u32, usize)> {
    let mut val = 0u32;
    for (idx, byte) in buf.iter().enumerate().take(4) {
        val |= ((byte & 0x7f) as u32) << (7 * idx);
        if byte & 0x80 == 0 {
            return Some((val, idx + 1));
        }
    }
    None
}

fn encode_varint(mut val: u32, out: &mut Vec<u8>) {
    loop {
        let mut byte = (val % 128) as u8;
        val /= 128;
        if val > 0 {
            byte |= 0x80;
        }
        out.push(byte);
        if val == 0 {
            break;
        }
    }
}

impl Broker {
    fn send(&mut self, bytes: &[u8]) {
        self.to_client.extend(bytes.iter().copied());
        if let Some(waker) = self.reader.take() {
            waker.wake();
        }
    }

    /// Subscription identifier the client chose for the SUBSCRIBE with the given topic filter.
    fn sub_id(&self, filter: &str) -> u32 {
        self.subscriptions
            .iter()
            .find(|(f, _)| f == filter)
            .map(|(_, id)| *id)
            .expect("no SUBSCRIBE seen for this filter")
    }

    /// Broker forwards a QoS 0 message matching the subscription made with `filter`.
    fn publish(&mut self, filter: &str, topic: &str, payload: &[u8]) {
        let mut props = vec![0x0b];
        encode_varint(self.sub_id(filter), &mut props);

        let mut body = Vec::new();
        body.extend_from_slice(&(topic.len() as u16).to_be_bytes());
        body.extend_from_slice(topic.as_bytes());
        encode_varint(props.len() as u32, &mut body);
        body.extend_from_slice(&props);
        body.extend_from_slice(payload);

        let mut packet = vec![0x30];
        encode_varint(body.len() as u32, &mut packet);
        packet.extend_from_slice(&body);
        self.send(&packet);
    }

    fn handle_packets(&mut self) {
        loop {
            if self.from_client.len() < 2 {
                return;
            }
            let (remaining, len_size) = match decode_varint(&self.from_client[1..]) {
                Some(val) => val,
                None => return,
            };
            let total = 1 + len_size + remaining as usize;
            if self.from_client.len() < total {
                return;
            }
            let packet: Vec<u8> = self.from_client.drain(..total).collect();
            let body = &packet[1 + len_size..];

            match packet[0] >> 4 {
                1 => self.send(&[0x20, 0x03, 0x00, 0x00, 0x00]), // CONNECT -> CONNACK
                3 => {
                    // PUBLISH: acknowledge QoS 1.
                    let qos = (packet[0] >> 1) & 0x03;
                    if qos == 1 {
                        let topic_len = u16::from_be_bytes([body[0], body[1]]) as usize;
                        let pid = &body[2 + topic_len..2 + topic_len + 2];
                        self.send(&[0x40, 0x02, pid[0], pid[1]]);
                    }
                }
                8 => {
                    // SUBSCRIBE: remember (filter, subscription identifier), answer SUBACK.
                    let pid = [body[0], body[1]];
                    let (prop_len, prop_len_size) = decode_varint(&body[2..]).unwrap();
                    let props_start = 2 + prop_len_size;
                    let props = &body[props_start..props_start + prop_len as usize];
                    assert_eq!(props[0], 0x0b, "SUBSCRIBE without subscription identifier");
                    let (sub_id, _) = decode_varint(&props[1..]).unwrap();

                    let payload = &body[props_start + prop_len as usize..];
                    let filter_len = u16::from_be_bytes([payload[0], payload[1]]) as usize;
                    let filter = String::from_utf8(payload[2..2 + filter_len].to_vec()).unwrap();
                    self.subscriptions.push((filter, sub_id));

                    self.send(&[0x90, 0x04, pid[0], pid[1], 0x00, 0x00]);
                }
                10 => {
                    // UNSUBSCRIBE -> UNSUBACK
                    self.send(&[0xb0, 0x04, body[0], body[1], 0x00, 0x00]);
                }
                12 => self.send(&[0xd0, 0x00]), // PINGREQ -> PINGRESP
                _ => {}
            }
        }
    }
}

#[derive(Clone)]
struct Wire(Arc<Mutex<Broker>>);

impl AsyncRead for Wire {
    fn poll_read(
        self: Pin<&mut Self>,
        cx: &mut TaskContext<'_>,
        buf: &mut [u8],
    ) -> Poll<io::Result<usize>> {
        let mut broker = self.0.lock().unwrap();
        if broker.to_client.is_empty() {
            broker.reader = Some(cx.waker().clone());
            return Poll::Pending;
        }
        let n = buf.len().min(broker.to_client.len());
        for slot in buf.iter_mut().take(n) {
            *slot = broker.to_client.pop_front().unwrap();
        }
        Poll::Ready(Ok(n))
    }
}

impl AsyncWrite for Wire {
    fn poll_write(
        self: Pin<&mut Self>,
        _cx: &mut TaskContext<'_>,
        buf: &[u8],
    ) -> Poll<io::Result<usize>> {
        let mut broker = self.0.lock().unwrap();
        broker.from_client.extend_from_slice(buf);
        broker.handle_packets();
        Poll::Ready(Ok(buf.len()))
    }

    fn poll_flush(self: Pin<&mut Self>, _cx: &mut TaskContext<'_>) -> Poll<io::Result<()>> {
        Poll::Ready(Ok(()))
    }

    fn poll_close(self: Pin<&mut Self>, _cx: &mut TaskContext<'_>) -> Poll<io::Result<()>> {
        Poll::Ready(Ok(()))
    }
}

/// Which operation consumes a packet identifier before the subscriptions are made.
enum Prelude {
    Nothing,
    PublishQoS1,
    Unsubscribe,
}

/// Two subscriptions, one message for each; every stream must yield its own message only.
fn scenario(prelude: Prelude) {
    let wire = Wire(Arc::new(Mutex::new(Broker::default())));
    let broker = wire.0.clone();

    block_on(async move {
        let (mut ctx, mut handle) = Context::new();
        ctx.set_up((wire.clone(), wire));
        ctx.connect(ConnectOpts::new()).await.unwrap();

        let run = ctx.run().fuse();
        let script = async {
            match prelude {
                Prelude::Nothing => {}
                Prelude::PublishQoS1 => handle
                    .publish(
                        PublishOpts::new()
                            .topic_name("hello")
                            .qos(QoS::AtLeastOnce)
                            .payload(b"world"),
                    )
                    .await
                    .unwrap(),
                Prelude::Unsubscribe => {
                    handle
                        .unsubscribe(UnsubscribeOpts::new().topic_filter("stale/#"))
                        .await
                        .unwrap();
                }
            }

            let rsp_a = handle
                .subscribe(SubscribeOpts::new().subscription("a/#", SubscriptionOpts::new()))
                .await
                .unwrap();
            let rsp_b = handle
                .subscribe(SubscribeOpts::new().subscription("b/#", SubscriptionOpts::new()))
                .await
                .unwrap();
            let mut stream_a = rsp_a.stream();
            let mut stream_b = rsp_b.stream();

            {
                let mut broker = broker.lock().unwrap();
                broker.publish("a/#", "a/1", b"for-a");
                broker.publish("b/#", "b/1", b"for-b");
            }

            // The PINGRESP is queued behind both messages: once it is back, they were handled.
            handle.ping().await.unwrap();

            let got_a: Vec<(String, Vec<u8>)> = std::iter::from_fn(|| {
                stream_a
                    .next()
                    .now_or_never()
                    .flatten()
                    .map(|msg| (msg.topic_name().to_owned(), msg.payload().to_vec()))
            })
            .collect();
            let got_b: Vec<(String, Vec<u8>)> = std::iter::from_fn(|| {
                stream_b
                    .next()
                    .now_or_never()
                    .flatten()
                    .map(|msg| (msg.topic_name().to_owned(), msg.payload().to_vec()))
            })
            .collect();

            assert_eq!(
                got_a,
                vec![("a/1".to_owned(), b"for-a".to_vec())],
                "stream of the a/# subscription"
            );
            assert_eq!(
                got_b,
                vec![("b/1".to_owned(), b"for-b".to_vec())],
                "stream of the b/# subscription"
            );
        }
        .fuse();

        pin_mut!(run, script);
        select! {
            res = run => panic!("context stopped early: {:?}", res.map_err(|e| e.to_string())),
            _ = script => {}
        }
    });
}

#[test]
fn subscribe_first() {
    scenario(Prelude::Nothing);
}

#[test]
fn subscribe_after_qos1_publish() {
    scenario(Prelude::PublishQoS1);
}

#[test]
fn subscribe_after_unsubscribe() {
    scenario(Prelude::Unsubscribe);
}
