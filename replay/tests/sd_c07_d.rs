//! Demonstration for property C07 (inbound messages reach exactly their subscription's stream).
//!
//! Three subscriptions A, B, C are made (in this order). The streams of A and B are dropped,
//! the stream of C is kept. The broker then sends ONE message matching both A and B (it carries
//! both subscription identifiers), followed by a message for C. The stream of C must yield
//! that message: other streams having been dropped must not affect it.

use futures::{
    executor::block_on,
    future::{self, Either},
    AsyncRead, AsyncWrite, StreamExt,
};
use poster::{
    ConnectOpts, Context, DisconnectOpts, SubscribeOpts, SubscribeRsp, SubscriptionOpts,
};
use std::{
    cell::RefCell,
    collections::VecDeque,
    io,
    pin::Pin,
    rc::Rc,
    task::{Context as TaskContext, Poll, Waker},
};

#[derive(Default)]
struct Wire {
    /// Bytes travelling broker -> client.
    inbound: VecDeque<u8>,
    reader: Option<Waker>,
    /// Bytes written by the client which do not yet form a whole packet.
    partial: Vec<u8>,
    /// Subscription identifiers seen in SUBSCRIBE packets, in order.
    subscription_ids: Vec<u32>,
}

impl Wire {
    fn push(&mut self, bytes: &[u8]) {
        self.inbound.extend(bytes.iter().copied());
        if let Some(waker) = self.reader.take() {
            waker.wake();
        }
    }

    /// Scripted broker: every SUBSCRIBE is answered with a successful SUBACK.
    fn on_client_packet(&mut self, packet: &[u8]) {
        if packet[0] >> 4 == 8 {
            let (_, hdr_len) = varint(&packet[1..]);
            let body = &packet[1 + hdr_len..];
            let (id_hi, id_lo) = (body[0], body[1]);

            let (props_len, props_len_len) = varint(&body[2..]);
            let props = &body[2 + props_len_len..2 + props_len_len + props_len as usize];
            assert_eq!(props[0], 0x0b, "subscription identifier expected first");
            let (sub_id, _) = varint(&props[1..]);
            self.subscription_ids.push(sub_id);

            self.push(&[0x90, 0x04, id_hi, id_lo, 0x00, 0x00]);
        }
    }
}

fn varint(bytes: &[u8]) -> (u32, usize) {
    let mut val = 0u32;
    for (idx, byte) in bytes.iter().enumerate() {
        val |= ((byte & 0x7f) as u32) << (7 * idx);
        if byte & 0x80 == 0 {
            return (val, idx + 1);
        }
    }
    panic!("incomplete variable byte integer");
}

fn try_varint(bytes: &[u8]) -> Option<(u32, usize)> {
    let end = bytes.iter().position(|byte| byte & 0x80 == 0)?;
    Some(varint(&bytes[..=end]))
}

fn encode_varint(mut val: u32, out: &mut Vec<u8>) {
    loop {
        let byte = (val & 0x7f) as u8;
        val >>= 7;
        if val == 0 {
            out.push(byte);
            return;
        }
        out.push(byte | 0x80);
    }
}

/// QoS 0 PUBLISH carrying the given subscription identifiers.
fn publish(topic: &str, subscription_ids: &[u32], payload: &[u8]) -> Vec<u8> {
    let mut props = Vec::new();
    for id in subscription_ids {
        props.push(0x0b);
        encode_varint(*id, &mut props);
    }

    let mut body = Vec::new();
    body.extend_from_slice(&(topic.len() as u16).to_be_bytes());
    body.extend_from_slice(topic.as_bytes());
    encode_varint(props.len() as u32, &mut body);
    body.extend_from_slice(&props);
    body.extend_from_slice(payload);

    let mut packet = vec![0x30];
    encode_varint(body.len() as u32, &mut packet);
    packet.extend_from_slice(&body);
    packet
}

struct Rx(Rc<RefCell<Wire>>);
struct Tx(Rc<RefCell<Wire>>);

impl AsyncRead for Rx {
    fn poll_read(
        self: Pin<&mut Self>,
        cx: &mut TaskContext<'_>,
        buf: &mut [u8],
    ) -> Poll<io::Result<usize>> {
        let mut wire = self.0.borrow_mut();
        if wire.inbound.is_empty() {
            wire.reader = Some(cx.waker().clone());
            return Poll::Pending;
        }

        let count = buf.len().min(wire.inbound.len());
        for (dst, src) in buf.iter_mut().zip(wire.inbound.drain(..count)) {
            *dst = src;
        }
        Poll::Ready(Ok(count))
    }
}

impl AsyncWrite for Tx {
    fn poll_write(
        self: Pin<&mut Self>,
        _: &mut TaskContext<'_>,
        buf: &[u8],
    ) -> Poll<io::Result<usize>> {
        let mut wire = self.0.borrow_mut();
        wire.partial.extend_from_slice(buf);

        // Hand every complete packet to the scripted broker.
        loop {
            if wire.partial.len() < 2 {
                break;
            }
            let Some((remaining, len_len)) = try_varint(&wire.partial[1..]) else {
                break;
            };
            let total = 1 + len_len + remaining as usize;
            if wire.partial.len() < total {
                break;
            }
            let packet: Vec<u8> = wire.partial.drain(..total).collect();
            wire.on_client_packet(&packet);
        }

        Poll::Ready(Ok(buf.len()))
    }

    fn poll_flush(self: Pin<&mut Self>, _: &mut TaskContext<'_>) -> Poll<io::Result<()>> {
        Poll::Ready(Ok(()))
    }

    fn poll_close(self: Pin<&mut Self>, _: &mut TaskContext<'_>) -> Poll<io::Result<()>> {
        Poll::Ready(Ok(()))
    }
}

async fn subscribe(handle: &mut poster::ContextHandle, filter: &str) -> SubscribeRsp {
    handle
        .subscribe(SubscribeOpts::new().subscription(filter, SubscriptionOpts::new()))
        .await
        .expect("subscribe failed")
}

/// Returns what the surviving stream (third subscription) yielded: (topic, payload) per message.
fn scenario(drop_first_two: bool) -> Vec<(String, Vec<u8>)> {
    let wire = Rc::new(RefCell::new(Wire::default()));
    let (mut ctx, mut handle) = Context::new();
    ctx.set_up((Rx(wire.clone()), Tx(wire.clone())));

    block_on(async {
        wire.borrow_mut().push(&[0x20, 0x03, 0x00, 0x00, 0x00]);
        ctx.connect(ConnectOpts::new()).await.expect("connect failed");

        let script = async {
            let a = subscribe(&mut handle, "sensors/#").await.stream();
            let b = subscribe(&mut handle, "sensors/+/temp").await.stream();
            let mut c = subscribe(&mut handle, "alerts/#").await.stream();

            let ids = wire.borrow().subscription_ids.clone();
            assert_eq!(ids.len(), 3);

            let kept = if drop_first_two {
                drop(a);
                drop(b);
                None
            } else {
                Some((a, b))
            };

            // One message matching the overlapping subscriptions A and B ...
            wire.borrow_mut()
                .push(&publish("sensors/1/temp", &[ids[0], ids[1]], b"21.5"));
            // ... and then two for C.
            wire.borrow_mut()
                .push(&publish("alerts/fire", &[ids[2]], b"first"));
            wire.borrow_mut()
                .push(&publish("alerts/flood", &[ids[2]], b"second"));

            let mut got = Vec::new();
            for _ in 0..2 {
                match c.next().await {
                    Some(msg) => got.push((msg.topic_name().to_owned(), msg.payload().to_vec())),
                    None => break, // The stream ended although the context is still running.
                }
            }

            if let Some((mut a, mut b)) = kept {
                let msg = a.next().await.expect("stream A ended");
                assert_eq!(msg.payload(), b"21.5");
                let msg = b.next().await.expect("stream B ended");
                assert_eq!(msg.payload(), b"21.5");
            }

            handle
                .disconnect(DisconnectOpts::new())
                .await
                .expect("disconnect failed");
            got
        };

        let run = ctx.run();
        futures::pin_mut!(script, run);

        match future::select(script, run).await {
            Either::Left((got, run)) => {
                run.await.expect("run failed");
                got
            }
            // `run` returns as soon as the DISCONNECT is written, the script is about to end then.
            Either::Right((res, script)) => {
                res.expect("run failed");
                script.await
            }
        }
    })
}

fn expected() -> Vec<(String, Vec<u8>)> {
    vec![
        ("alerts/fire".to_owned(), b"first".to_vec()),
        ("alerts/flood".to_owned(), b"second".to_vec()),
    ]
}

/// Baseline: nothing is dropped, every stream gets its messages.
#[test]
fn all_streams_alive() {
    assert_eq!(scenario(false), expected());
}

/// Streams A and B are dropped before a message carrying both of their identifiers arrives;
/// the stream of C must be unaffected.
#[test]
fn stream_unaffected_by_other_streams_being_dropped() {
    assert_eq!(scenario(true), expected());
}
