//! C08 demonstration: every inbound QoS>0 PUBLISH is acknowledged exactly once, with its
//! identifier, even when it carries the subscription identifier of a subscription whose
//! stream the application has already dropped.
//!
//! Uses only the public API and an in-memory scripted transport, single threaded, driven by
//! `futures::executor::block_on`.

use futures::{future, AsyncRead, AsyncWrite};
use poster::{ConnectOpts, Context, DisconnectOpts, QoS, SubscribeOpts, SubscriptionOpts};
use std::{
    cell::RefCell,
    collections::VecDeque,
    io,
    pin::Pin,
    rc::Rc,
    task::{Context as TaskContext, Poll, Waker},
};

#[derive(Default)]
struct Wire {
    /// Bytes travelling broker -> client, one entry per packet (always handed over whole).
    inbound: VecDeque<Vec<u8>>,
    /// Everything the client has written so far.
    outbound: Vec<u8>,
    reader: Option<Waker>,
}

#[derive(Clone, Default)]
struct Shared(Rc<RefCell<Wire>>);

impl Shared {
    fn feed(&self, packet: &[u8]) {
        let mut wire = self.0.borrow_mut();
        wire.inbound.push_back(packet.to_vec());
        if let Some(waker) = wire.reader.take() {
            waker.wake();
        }
    }

    fn written(&self) -> Vec<u8> {
        self.0.borrow().outbound.clone()
    }
}

struct Rx(Shared);
struct Tx(Shared);

impl AsyncRead for Rx {
    fn poll_read(
        self: Pin<&mut Self>,
        cx: &mut TaskContext<'_>,
        buf: &mut [u8],
    ) -> Poll<io::Result<usize>> {
        let mut wire = self.0 .0.borrow_mut();
        match wire.inbound.pop_front() {
            Some(packet) => {
                assert!(packet.len() <= buf.len());
                buf[..packet.len()].copy_from_slice(&packet);
                Poll::Ready(Ok(packet.len()))
            }
            None => {
                wire.reader = Some(cx.waker().clone());
                Poll::Pending
            }
        }
    }
}

impl AsyncWrite for Tx {
    fn poll_write(
        self: Pin<&mut Self>,
        _: &mut TaskContext<'_>,
        buf: &[u8],
    ) -> Poll<io::Result<usize>> {
        self.0 .0.borrow_mut().outbound.extend_from_slice(buf);
        Poll::Ready(Ok(buf.len()))
    }

    fn poll_flush(self: Pin<&mut Self>, _: &mut TaskContext<'_>) -> Poll<io::Result<()>> {
        Poll::Ready(Ok(()))
    }

    fn poll_close(self: Pin<&mut Self>, _: &mut TaskContext<'_>) -> Poll<io::Result<()>> {
        Poll::Ready(Ok(()))
    }
}

/// Gives the other branch of the surrounding `join` a chance to run.
async fn yield_now() {
    let mut yielded = false;
    future::poll_fn(move |cx| {
        if yielded {
            return Poll::Ready(());
        }
        yielded = true;
        cx.waker().wake_by_ref();
        Poll::Pending
    })
    .await
}

/// Cooperatively waits until `cond` holds; gives up (returns false) after a bounded number of turns.
async fn wait_until(mut cond: impl FnMut() -> bool) -> bool {
    for _ in 0..10_000 {
        if cond() {
            return true;
        }
        yield_now().await;
    }
    cond()
}

/// Splits a byte log into MQTT packets (remaining length < 128 is all this test produces).
fn split_packets(mut bytes: &[u8]) -> Vec<Vec<u8>> {
    let mut packets = Vec::new();
    while !bytes.is_empty() {
        assert!(bytes.len() >= 2, "truncated packet on the wire: {bytes:?}");
        assert!(bytes[1] < 0x80);
        let len = 2 + bytes[1] as usize;
        assert!(bytes.len() >= len, "truncated packet on the wire: {bytes:?}");
        packets.push(bytes[..len].to_vec());
        bytes = &bytes[len..];
    }
    packets
}

/// PUBLISH, topic "a", payload "x", optional packet identifier (QoS>0) and subscription identifier (<128).
fn publish(qos: u8, dup: bool, packet_id: Option<u16>, sub_id: Option<u8>) -> Vec<u8> {
    let mut body = vec![0x00, 0x01, b'a'];
    if let Some(id) = packet_id {
        body.extend_from_slice(&id.to_be_bytes());
    }
    match sub_id {
        Some(sub_id) => body.extend_from_slice(&[0x02, 0x0B, sub_id]),
        None => body.push(0x00),
    }
    body.push(b'x');

    let mut packet = vec![0x30 | ((dup as u8) << 3) | (qos << 1), body.len() as u8];
    packet.extend(body);
    packet
}

const CONNACK: [u8; 5] = [0x20, 0x03, 0x00, 0x00, 0x00];

/// `drop_stream`: whether the application drops the subscription stream before the messages arrive.
fn scenario(drop_stream: bool) -> Vec<Vec<u8>> {
    let wire = Shared::default();
    let (mut ctx, mut handle) = Context::new();
    ctx.set_up((Rx(wire.clone()), Tx(wire.clone())));

    futures::executor::block_on(async {
        wire.feed(&CONNACK);
        ctx.connect(ConnectOpts::new().client_identifier("c08"))
            .await
            .expect("connect");

        let script = async {
            // --- subscribe; the scripted broker answers once the SUBSCRIBE is on the wire.
            let before = wire.written().len();
            let mut sub_handle = handle.clone();
            let broker = async {
                let seen = wait_until(|| {
                    split_packets(&wire.written()[before..])
                        .iter()
                        .any(|p| p[0] == 0x82)
                })
                .await;
                assert!(seen, "SUBSCRIBE never written");
                let subscribe = split_packets(&wire.written()[before..])
                    .into_iter()
                    .find(|p| p[0] == 0x82)
                    .unwrap();
                // [0x82, len, id_hi, id_lo, prop_len, 0x0B, sub_id, ...]
                assert_eq!(subscribe[5], 0x0B);
                assert!(subscribe[6] < 0x80);
                let sub_id = subscribe[6];
                wire.feed(&[0x90, 0x04, subscribe[2], subscribe[3], 0x00, 0x01]);
                sub_id
            };
            let (rsp, sub_id) = future::join(
                sub_handle.subscribe(
                    SubscribeOpts::new()
                        .subscription("a", SubscriptionOpts::new().maximum_qos(QoS::ExactlyOnce)),
                ),
                broker,
            )
            .await;
            let stream = rsp.expect("subscribe").stream();

            // --- the application may lose interest in the messages.
            let kept = if drop_stream {
                drop(stream);
                None
            } else {
                Some(stream)
            };

            // --- inbound traffic for that subscription, then a PUBREL as the end marker.
            let mark = wire.written().len();
            wire.feed(&publish(1, false, Some(0x0010), Some(sub_id)));
            wire.feed(&publish(2, false, Some(0x0011), Some(sub_id)));
            wire.feed(&publish(0, false, None, Some(sub_id)));
            wire.feed(&publish(1, true, Some(0x0012), Some(sub_id)));
            wire.feed(&[0x62, 0x02, 0x00, 0x99]);

            let done = wait_until(|| {
                split_packets(&wire.written()[mark..])
                    .iter()
                    .any(|p| p == &[0x70, 0x02, 0x00, 0x99])
            })
            .await;
            assert!(done, "PUBCOMP for the end marker never written");
            let acks = split_packets(&wire.written()[mark..]);

            handle
                .disconnect(DisconnectOpts::new())
                .await
                .expect("disconnect");
            drop(kept);
            acks
        };

        let (run_result, acks) = future::join(ctx.run(), script).await;
        run_result.expect("run");
        acks
    })
}

fn expected() -> Vec<Vec<u8>> {
    vec![
        vec![0x40, 0x02, 0x00, 0x10], // PUBACK  0x0010
        vec![0x50, 0x02, 0x00, 0x11], // PUBREC  0x0011
        // nothing for the QoS 0 message
        vec![0x40, 0x02, 0x00, 0x12], // PUBACK  0x0012
        vec![0x70, 0x02, 0x00, 0x99], // PUBCOMP 0x0099
    ]
}

#[test]
fn acknowledges_messages_of_a_live_subscription() {
    assert_eq!(scenario(false), expected());
}

#[test]
fn acknowledges_messages_of_a_subscription_whose_stream_was_dropped() {
    assert_eq!(scenario(true), expected());
}
