//! C08 demonstration: every inbound PUBREL is answered with exactly one PUBCOMP carrying its
//! identifier, also when the broker sends the PUBREL again (its PUBCOMP got lost on the way)
//! or when there is no QoS 2 PUBLISH outstanding for that identifier.

use std::{
    collections::VecDeque,
    io,
    pin::Pin,
    sync::{Arc, Mutex},
    task::{Context as TaskContext, Poll},
};

use futures::{executor::block_on, AsyncRead, AsyncWrite};
use poster::{ConnectOpts, Context};

/// Read half: hands out one scripted chunk per read, then reports EOF.
struct ScriptedRx {
    chunks: VecDeque<Vec<u8>>,
}

impl AsyncRead for ScriptedRx {
    fn poll_read(
        mut self: Pin<&mut Self>,
        _cx: &mut TaskContext<'_>,
        buf: &mut [u8],
    ) -> Poll<io::Result<usize>> {
        match self.chunks.pop_front() {
            Some(chunk) => {
                assert!(chunk.len() <= buf.len());
                buf[..chunk.len()].copy_from_slice(&chunk);
                Poll::Ready(Ok(chunk.len()))
            }
            None => Poll::Ready(Ok(0)),
        }
    }
}

/// Write half: records every write as it is.
#[derive(Clone)]
struct RecordingTx {
    written: Arc<Mutex<Vec<u8>>>,
}

impl AsyncWrite for RecordingTx {
    fn poll_write(
        self: Pin<&mut Self>,
        _cx: &mut TaskContext<'_>,
        buf: &[u8],
    ) -> Poll<io::Result<usize>> {
        self.written.lock().unwrap().extend_from_slice(buf);
        Poll::Ready(Ok(buf.len()))
    }

    fn poll_flush(self: Pin<&mut Self>, _cx: &mut TaskContext<'_>) -> Poll<io::Result<()>> {
        Poll::Ready(Ok(()))
    }

    fn poll_close(self: Pin<&mut Self>, _cx: &mut TaskContext<'_>) -> Poll<io::Result<()>> {
        Poll::Ready(Ok(()))
    }
}

const CONNACK: [u8; 5] = [0x20, 0x03, 0x00, 0x00, 0x00];

fn publish_qos2(id: u16) -> Vec<u8> {
    vec![
        0x34, // PUBLISH, QoS 2
        0x07, // remaining length
        0x00,
        0x01,
        b'a', // topic
        (id >> 8) as u8,
        id as u8,
        0x00, // no properties
        b'x', // payload
    ]
}

fn pubrel(id: u16) -> Vec<u8> {
    vec![0x62, 0x02, (id >> 8) as u8, id as u8]
}

fn pubrec(id: u16) -> Vec<u8> {
    vec![0x50, 0x02, (id >> 8) as u8, id as u8]
}

fn pubcomp(id: u16) -> Vec<u8> {
    vec![0x70, 0x02, (id >> 8) as u8, id as u8]
}

/// Connects, serves the scripted inbound packets until EOF, returns what the client wrote after CONNECT.
fn serve(inbound: Vec<Vec<u8>>) -> Vec<u8> {
    let mut chunks = VecDeque::new();
    chunks.push_back(CONNACK.to_vec());
    chunks.extend(inbound);

    let written = Arc::new(Mutex::new(Vec::new()));
    let tx = RecordingTx {
        written: written.clone(),
    };
    let rx = ScriptedRx { chunks };

    let (mut ctx, _handle) = Context::new();
    ctx.set_up((rx, tx));

    block_on(async {
        ctx.connect(ConnectOpts::new()).await.unwrap();
        let connect_len = written.lock().unwrap().len();

        // Ends with SocketClosed once the script is exhausted.
        let _ = ctx.run().await;

        let all = written.lock().unwrap().clone();
        all[connect_len..].to_vec()
    })
}

#[test]
fn ordinary_qos2_exchange_is_acknowledged() {
    let written = serve(vec![publish_qos2(5), pubrel(5)]);
    assert_eq!(written, [pubrec(5), pubcomp(5)].concat());
}

#[test]
fn repeated_pubrel_gets_a_pubcomp_each_time() {
    // The broker did not see our PUBCOMP and sends PUBREL once more.
    let written = serve(vec![publish_qos2(5), pubrel(5), pubrel(5)]);
    assert_eq!(written, [pubrec(5), pubcomp(5), pubcomp(5)].concat());
}

#[test]
fn pubrel_without_outstanding_publish_gets_a_pubcomp() {
    // E.g. the PUBLISH/PUBREC part of the exchange happened in a previous connection.
    let written = serve(vec![pubrel(9), publish_qos2(5), pubrel(5)]);
    assert_eq!(written, [pubcomp(9), pubrec(5), pubcomp(5)].concat());
}
