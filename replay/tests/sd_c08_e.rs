//! C08: every inbound QoS>0 PUBLISH and every inbound PUBREL is acknowledged exactly once,
//! with the right packet type and the same packet identifier, in arrival order.
//!
//! The scripted broker below sends PUBREL packets for which the client holds no
//! unreleased QoS 2 message (PUBREL sent again, PUBREL for a never seen identifier).

use std::{
    collections::VecDeque,
    io,
    pin::Pin,
    sync::{Arc, Mutex},
    task::{Context as TaskContext, Poll},
};

use futures::{executor::block_on, AsyncRead, AsyncWrite};
use poster::{ConnectOpts, Context};

/// Read half: hands out the scripted chunks one per read, then reports end of stream.
struct ScriptedRx {
    chunks: VecDeque<Vec<u8>>,
}

impl AsyncRead for ScriptedRx {
    fn poll_read(
        mut self: Pin<&mut Self>,
        _cx: &mut TaskContext<'_>,
        buf: &mut [u8],
    ) -> Poll<io::Result<usize>> {
        match self.chunks.pop_front() {
            Some(chunk) => {
                assert!(chunk.len() <= buf.len());
                buf[..chunk.len()].copy_from_slice(&chunk);
                Poll::Ready(Ok(chunk.len()))
            }
            None => Poll::Ready(Ok(0)), // EOF
        }
    }
}

/// Write half: records everything the client writes.
#[derive(Clone)]
struct RecordingTx {
    written: Arc<Mutex<Vec<u8>>>,
}

impl AsyncWrite for RecordingTx {
    fn poll_write(
        self: Pin<&mut Self>,
        _cx: &mut TaskContext<'_>,
        buf: &[u8],
    ) -> Poll<io::Result<usize>> {
        self.written.lock().unwrap().extend_from_slice(buf);
        Poll::Ready(Ok(buf.len()))
    }

    fn poll_flush(self: Pin<&mut Self>, _cx: &mut TaskContext<'_>) -> Poll<io::Result<()>> {
        Poll::Ready(Ok(()))
    }

    fn poll_close(self: Pin<&mut Self>, _cx: &mut TaskContext<'_>) -> Poll<io::Result<()>> {
        Poll::Ready(Ok(()))
    }
}

/// Splits a byte stream into MQTT packets: (fixed header byte, variable header + payload).
fn split_packets(mut bytes: &[u8]) -> Vec<(u8, Vec<u8>)> {
    let mut packets = Vec::new();
    while !bytes.is_empty() {
        let hdr = bytes[0];
        let mut len = 0usize;
        let mut shift = 0;
        let mut pos = 1;
        loop {
            let b = bytes[pos];
            pos += 1;
            len |= ((b & 0x7f) as usize) << shift;
            shift += 7;
            if b & 0x80 == 0 {
                break;
            }
        }
        packets.push((hdr, bytes[pos..pos + len].to_vec()));
        bytes = &bytes[pos + len..];
    }
    packets
}

const CONNACK: [u8; 5] = [0x20, 0x03, 0x00, 0x00, 0x00];

fn publish(qos: u8, dup: bool, id: u16) -> Vec<u8> {
    let hdr = 0x30 | ((dup as u8) << 3) | (qos << 1);
    let mut body = vec![0x00, 0x01, b't'];
    if qos > 0 {
        body.extend_from_slice(&id.to_be_bytes());
    }
    body.push(0x00); // no properties
    body.extend_from_slice(b"x");
    let mut packet = vec![hdr, body.len() as u8];
    packet.extend(body);
    packet
}

fn pubrel(id: u16) -> Vec<u8> {
    let id = id.to_be_bytes();
    vec![0x62, 0x02, id[0], id[1]]
}

/// Runs the client against the scripted inbound packets and returns
/// (packet type, packet identifier) of everything it wrote after CONNECT.
fn serve(inbound: Vec<Vec<u8>>) -> Vec<(u8, u16)> {
    let mut chunks: VecDeque<Vec<u8>> = VecDeque::new();
    chunks.push_back(CONNACK.to_vec());
    chunks.extend(inbound);

    let written = Arc::new(Mutex::new(Vec::new()));
    let rx = ScriptedRx { chunks };
    let tx = RecordingTx {
        written: written.clone(),
    };

    let (mut ctx, handle) = Context::new();
    ctx.set_up((rx, tx));

    block_on(async {
        ctx.connect(ConnectOpts::new()).await.unwrap();
        // The script ends with EOF, so run() ends with an error (socket closed).
        let _ = ctx.run().await;
    });
    drop(handle);

    let written = written.lock().unwrap().clone();
    let packets = split_packets(&written);
    assert_eq!(packets[0].0 >> 4, 1, "first packet written is CONNECT");

    packets[1..]
        .iter()
        .map(|(hdr, body)| {
            // All acknowledgement packets have reserved flags: 0 except PUBREL (2).
            assert!(body.len() >= 2);
            (hdr >> 4, u16::from_be_bytes([body[0], body[1]]))
        })
        .collect()
}

const PUBACK: u8 = 4;
const PUBREC: u8 = 5;
const PUBCOMP: u8 = 7;

#[test]
fn pubrel_sent_again_is_acknowledged_with_pubcomp() {
    let acks = serve(vec![
        publish(2, false, 7),
        pubrel(7),
        pubrel(7), // the broker did not see our PUBCOMP in time and repeats PUBREL
    ]);

    assert_eq!(acks, vec![(PUBREC, 7), (PUBCOMP, 7), (PUBCOMP, 7)]);
}

#[test]
fn pubrel_for_unknown_identifier_is_acknowledged_with_pubcomp() {
    let acks = serve(vec![
        publish(1, false, 3),
        pubrel(0x1234), // nothing with this identifier was received in this session
        publish(0, false, 0),
        publish(2, true, 9),
        pubrel(9),
    ]);

    assert_eq!(
        acks,
        vec![(PUBACK, 3), (PUBCOMP, 0x1234), (PUBREC, 9), (PUBCOMP, 9)]
    );
}

#[test]
fn ordinary_exchanges_are_acknowledged() {
    let acks = serve(vec![
        publish(1, false, 1),
        publish(2, false, 2),
        publish(2, true, 2),
        pubrel(2),
        publish(2, false, 2),
        pubrel(2),
    ]);

    assert_eq!(
        acks,
        vec![
            (PUBACK, 1),
            (PUBREC, 2),
            (PUBREC, 2),
            (PUBCOMP, 2),
            (PUBREC, 2),
            (PUBCOMP, 2)
        ]
    );
}
