// Broker re-sends a PUBREL (its PUBCOMP got lost on the broker side): every PUBREL must be
// answered with exactly one PUBCOMP carrying its identifier.
use futures::{executor::LocalPool, AsyncRead, AsyncWrite};
use poster::{ConnectOpts, Context};
use std::{
    cell::RefCell,
    collections::VecDeque,
    future::Future,
    io,
    pin::Pin,
    rc::Rc,
    task::{Context as TaskCx, Poll, Waker},
};

#[derive(Default)]
struct Pipe {
    data: VecDeque<u8>,
    waker: Option<Waker>,
}

#[derive(Clone, Default)]
struct Rx(Rc<RefCell<Pipe>>);

impl Rx {
    fn feed(&self, bytes: &[u8]) {
        let mut pipe = self.0.borrow_mut();
        pipe.data.extend(bytes.iter().copied());
        if let Some(waker) = pipe.waker.take() {
            waker.wake();
        }
    }
}

impl AsyncRead for Rx {
    fn poll_read(
        self: Pin<&mut Self>,
        cx: &mut TaskCx<'_>,
        buf: &mut [u8],
    ) -> Poll<io::Result<usize>> {
        let mut pipe = self.0.borrow_mut();
        if pipe.data.is_empty() {
            pipe.waker = Some(cx.waker().clone());
            return Poll::Pending;
        }
        let mut n = 0;
        while n < buf.len() {
            match pipe.data.pop_front() {
                Some(byte) => {
                    buf[n] = byte;
                    n += 1;
                }
                None => break,
            }
        }
        Poll::Ready(Ok(n))
    }
}

#[derive(Clone, Default)]
struct Tx(Rc<RefCell<Vec<u8>>>);

impl AsyncWrite for Tx {
    fn poll_write(
        self: Pin<&mut Self>,
        _: &mut TaskCx<'_>,
        buf: &[u8],
    ) -> Poll<io::Result<usize>> {
        self.0.borrow_mut().extend_from_slice(buf);
        Poll::Ready(Ok(buf.len()))
    }
    fn poll_flush(self: Pin<&mut Self>, _: &mut TaskCx<'_>) -> Poll<io::Result<()>> {
        Poll::Ready(Ok(()))
    }
    fn poll_close(self: Pin<&mut Self>, _: &mut TaskCx<'_>) -> Poll<io::Result<()>> {
        Poll::Ready(Ok(()))
    }
}

/// (packet type, packet identifier) of every packet in `wire` (all of them short acknowledgements).
fn acks(wire: &[u8]) -> Vec<(u8, u16)> {
    let mut out = Vec::new();
    let mut pos = 0;
    while pos < wire.len() {
        let kind = wire[pos] >> 4;
        let remaining = wire[pos + 1] as usize;
        assert!(remaining >= 2 && remaining < 128);
        let id = u16::from_be_bytes([wire[pos + 2], wire[pos + 3]]);
        out.push((kind, id));
        pos += 2 + remaining;
    }
    out
}

#[test]
fn every_pubrel_gets_its_pubcomp() {
    let mut pool = LocalPool::new();
    let rx = Rx::default();
    let tx = Tx::default();

    let (mut ctx, _handle) = Context::new();
    ctx.set_up((rx.clone(), tx.clone()));

    // CONNACK: session present 0, reason 0, no properties.
    rx.feed(&[0x20, 0x03, 0x00, 0x00, 0x00]);
    pool.run_until(ctx.connect(ConnectOpts::new())).unwrap();
    tx.0.borrow_mut().clear();

    // PUBLISH QoS 2, id 7, topic "a", payload "x"; then its PUBREL, then the PUBREL once more.
    rx.feed(&[0x34, 0x07, 0x00, 0x01, b'a', 0x00, 0x07, 0x00, b'x']);
    rx.feed(&[0x62, 0x02, 0x00, 0x07]);
    rx.feed(&[0x62, 0x02, 0x00, 0x07]);

    {
        let mut run = Box::pin(ctx.run());
        pool.run_until(futures::future::poll_fn(|cx| {
            assert!(run.as_mut().poll(cx).is_pending());
            Poll::Ready(())
        }));
    }

    let wire = tx.0.borrow().clone();
    assert_eq!(acks(&wire), vec![(5, 7), (7, 7), (7, 7)], "wire: {:02x?}", wire);
}
