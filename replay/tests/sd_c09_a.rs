//! C09 demonstration: an inbound QoS 2 message is delivered to the application exactly once.
//!
//! A scripted in-memory broker sends, over one connection:
//!
//!   PUBLISH(QoS2, id=1, DUP=0, "a")   new message            -> yielded,      PUBREC(1)
//!   PUBLISH(QoS2, id=1, DUP=1, "a")   re-delivery            -> NOT yielded,  PUBREC(1)
//!   PUBREL(1)                                                ->               PUBCOMP(1)
//!   PUBLISH(QoS2, id=2, DUP=1, "b")   first copy never seen  -> yielded,      PUBREC(2)
//!   PUBREL(2)                                                ->               PUBCOMP(2)
//!   PUBLISH(QoS2, id=1, DUP=1, "c")   id 1 reused after REL  -> yielded,      PUBREC(1)
//!   PUBREL(1)                                                ->               PUBCOMP(1)
//!   DISCONNECT(0)
//!
//! The DUP flag only says that the *sender* transmitted the packet before; the receiver
//! "cannot assume that it has seen an earlier copy" (MQTT 5, 3.3.1.1). Whether a PUBLISH is a
//! re-delivery is decided solely by "PUBREC answered, PUBREL not yet received" for its identifier.
//! So the stream must contain exactly "a", "b", "c".

use futures::{executor::block_on, AsyncRead, AsyncWrite, FutureExt, StreamExt};
use poster::{ConnectOpts, Context, QoS, SubscribeOpts, SubscriptionOpts};
use std::{
    cell::RefCell,
    collections::VecDeque,
    io,
    pin::Pin,
    rc::Rc,
    task::{Context as TaskContext, Poll, Waker},
};

#[derive(Default)]
struct Wire {
    /// Bytes travelling broker -> client.
    to_client: VecDeque<u8>,
    /// Bytes written by the client, not yet forming a complete packet.
    pending: Vec<u8>,
    /// Complete packets written by the client, in order.
    from_client: Vec<Vec<u8>>,
    reader: Option<Waker>,
}

impl Wire {
    fn push(&mut self, bytes: &[u8]) {
        self.to_client.extend(bytes.iter().copied());
        if let Some(waker) = self.reader.take() {
            waker.wake();
        }
    }

    /// The broker script: reacts to each complete packet the client has written.
    fn on_client_packet(&mut self, packet: Vec<u8>) {
        match packet[0] >> 4 {
            // CONNECT -> CONNACK, success, no properties.
            1 => self.push(&[0x20, 0x03, 0x00, 0x00, 0x00]),
            // SUBSCRIBE -> SUBACK (granted QoS 2), followed by the scenario.
            8 => {
                let (id_hi, id_lo) = (packet[2], packet[3]);
                self.push(&[0x90, 0x04, id_hi, id_lo, 0x00, 0x02]);

                self.push(&publish_qos2(1, false, b"a"));
                self.push(&publish_qos2(1, true, b"a"));
                self.push(&pubrel(1));
                self.push(&publish_qos2(2, true, b"b"));
                self.push(&pubrel(2));
                self.push(&publish_qos2(1, true, b"c"));
                self.push(&pubrel(1));
                // DISCONNECT, reason 0: ends Context::run gracefully.
                self.push(&[0xE0, 0x01, 0x00]);
            }
            _ => {}
        }
        self.from_client.push(packet);
    }

    fn drain_client_packets(&mut self) {
        loop {
            // Fixed header byte + variable byte integer.
            let mut remaining = 0usize;
            let mut idx = 1;
            let mut complete = false;
            while idx < self.pending.len() && idx <= 4 {
                let byte = self.pending[idx];
                remaining |= ((byte & 0x7f) as usize) << (7 * (idx - 1));
                idx += 1;
                if byte & 0x80 == 0 {
                    complete = true;
                    break;
                }
            }
            if !complete || self.pending.len() < idx + remaining {
                return;
            }
            let packet: Vec<u8> = self.pending.drain(..idx + remaining).collect();
            self.on_client_packet(packet);
        }
    }
}

/// PUBLISH, QoS 2, topic "t", subscription identifier 1 (the first one the handle hands out).
fn publish_qos2(id: u16, dup: bool, payload: &[u8]) -> Vec<u8> {
    let mut body = vec![0x00, 0x01, b't'];
    body.extend_from_slice(&id.to_be_bytes());
    body.extend_from_slice(&[0x02, 0x0B, 0x01]);
    body.extend_from_slice(payload);

    let mut packet = vec![0x30 | ((dup as u8) << 3) | (2 << 1), body.len() as u8];
    packet.extend(body);
    packet
}

fn pubrel(id: u16) -> Vec<u8> {
    let id = id.to_be_bytes();
    vec![0x62, 0x02, id[0], id[1]]
}

struct Rx(Rc<RefCell<Wire>>);
struct Tx(Rc<RefCell<Wire>>);

impl AsyncRead for Rx {
    fn poll_read(
        self: Pin<&mut Self>,
        cx: &mut TaskContext<'_>,
        buf: &mut [u8],
    ) -> Poll<io::Result<usize>> {
        let mut wire = self.0.borrow_mut();
        if wire.to_client.is_empty() {
            wire.reader = Some(cx.waker().clone());
            return Poll::Pending;
        }
        let n = buf.len().min(wire.to_client.len());
        for (dst, src) in buf.iter_mut().zip(wire.to_client.drain(..n)) {
            *dst = src;
        }
        Poll::Ready(Ok(n))
    }
}

impl AsyncWrite for Tx {
    fn poll_write(
        self: Pin<&mut Self>,
        _: &mut TaskContext<'_>,
        buf: &[u8],
    ) -> Poll<io::Result<usize>> {
        let mut wire = self.0.borrow_mut();
        wire.pending.extend_from_slice(buf);
        wire.drain_client_packets();
        Poll::Ready(Ok(buf.len()))
    }

    fn poll_flush(self: Pin<&mut Self>, _: &mut TaskContext<'_>) -> Poll<io::Result<()>> {
        Poll::Ready(Ok(()))
    }

    fn poll_close(self: Pin<&mut Self>, _: &mut TaskContext<'_>) -> Poll<io::Result<()>> {
        Poll::Ready(Ok(()))
    }
}

#[test]
fn inbound_qos2_message_is_delivered_exactly_once() {
    let wire = Rc::new(RefCell::new(Wire::default()));

    let (mut ctx, mut handle) = Context::new();
    ctx.set_up((Rx(wire.clone()), Tx(wire.clone())));

    let (run_result, mut stream) = block_on(async {
        ctx.connect(ConnectOpts::new()).await.expect("CONNACK");

        let client = async {
            handle
                .subscribe(
                    SubscribeOpts::new()
                        .subscription("t", SubscriptionOpts::new().maximum_qos(QoS::ExactlyOnce)),
                )
                .await
                .expect("SUBACK")
                .stream()
        };

        futures::join!(ctx.run(), client)
    });

    run_result.expect("the broker disconnects with reason 0");

    // Context::run has returned, so everything that will ever be yielded is already queued.
    let mut yielded = Vec::new();
    while let Some(Some(msg)) = stream.next().now_or_never() {
        yielded.push(String::from_utf8(msg.payload().to_vec()).unwrap());
    }

    // Every PUBLISH is answered with PUBREC and every PUBREL with PUBCOMP, in order.
    let acks: Vec<(u8, u16)> = wire
        .borrow()
        .from_client
        .iter()
        .filter(|packet| matches!(packet[0] >> 4, 5 | 7))
        .map(|packet| (packet[0] >> 4, u16::from_be_bytes([packet[2], packet[3]])))
        .collect();
    assert_eq!(
        acks,
        vec![(5, 1), (5, 1), (7, 1), (5, 2), (7, 2), (5, 1), (7, 1)],
        "PUBREC/PUBCOMP sequence written by the client"
    );

    assert_eq!(
        yielded,
        vec!["a", "b", "c"],
        "each distinct QoS 2 message must appear in the stream exactly once"
    );
}
