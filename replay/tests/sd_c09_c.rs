//! C09: an inbound QoS 2 message is delivered to the application exactly once.
//!
//! Two QoS 2 messages (identifiers 1 and 2) are in flight at the same time and the broker
//! releases them in a different order than it sent them (PUBREL 2 before PUBREL 1).
//! A re-delivery of the not yet released identifier must stay silent, and a PUBLISH which
//! reuses the released identifier is a new message which must be yielded.

use futures::{executor::block_on, future, AsyncRead, AsyncWrite, StreamExt};
use poster::{ConnectOpts, Context, QoS, SubscribeOpts, SubscriptionOpts};
use std::{
    collections::VecDeque,
    io,
    pin::Pin,
    sync::{Arc, Mutex},
    task::{Context as TaskContext, Poll, Waker},
};

#[derive(Default)]
struct Broker {
    /// Bytes the client will read.
    inbound: VecDeque<u8>,
    /// Bytes written by the client, not yet split into packets.
    pending: Vec<u8>,
    /// First bytes (fixed headers) and packet identifiers of the acknowledgements the client wrote.
    acks: Vec<(u8, u16)>,
    /// What is sent right after the SUBACK.
    script: Vec<u8>,
    reader: Option<Waker>,
}

impl Broker {
    fn on_packet(&mut self, packet: &[u8]) {
        match packet[0] >> 4 {
            // CONNECT -> CONNACK, success, no properties
            1 => self.inbound.extend([0x20, 0x03, 0x00, 0x00, 0x00]),
            // SUBSCRIBE -> SUBACK (granted QoS 2), followed by the scripted traffic
            8 => {
                self.inbound
                    .extend([0x90, 0x04, packet[2], packet[3], 0x00, 0x02]);
                let script = std::mem::take(&mut self.script);
                self.inbound.extend(script);
            }
            // PUBACK / PUBREC / PUBCOMP written by the client
            4 | 5 | 7 => self
                .acks
                .push((packet[0], u16::from_be_bytes([packet[2], packet[3]]))),
            _ => {}
        }
    }

    fn on_bytes(&mut self, bytes: &[u8]) {
        self.pending.extend_from_slice(bytes);
        // Every packet used here is shorter than 128 bytes: one byte of remaining length.
        while self.pending.len() >= 2 && self.pending.len() >= 2 + self.pending[1] as usize {
            let len = 2 + self.pending[1] as usize;
            let packet: Vec<u8> = self.pending.drain(..len).collect();
            self.on_packet(&packet);
        }
        if let Some(waker) = self.reader.take() {
            waker.wake();
        }
    }
}

struct Rx(Arc<Mutex<Broker>>);
struct Tx(Arc<Mutex<Broker>>);

impl AsyncRead for Rx {
    fn poll_read(
        self: Pin<&mut Self>,
        cx: &mut TaskContext<'_>,
        buf: &mut [u8],
    ) -> Poll<io::Result<usize>> {
        let mut broker = self.0.lock().unwrap();
        if broker.inbound.is_empty() {
            broker.reader = Some(cx.waker().clone());
            return Poll::Pending;
        }
        let n = buf.len().min(broker.inbound.len());
        for (dst, src) in buf.iter_mut().zip(broker.inbound.drain(..n)) {
            *dst = src;
        }
        Poll::Ready(Ok(n))
    }
}

impl AsyncWrite for Tx {
    fn poll_write(
        self: Pin<&mut Self>,
        _: &mut TaskContext<'_>,
        buf: &[u8],
    ) -> Poll<io::Result<usize>> {
        self.0.lock().unwrap().on_bytes(buf);
        Poll::Ready(Ok(buf.len()))
    }

    fn poll_flush(self: Pin<&mut Self>, _: &mut TaskContext<'_>) -> Poll<io::Result<()>> {
        Poll::Ready(Ok(()))
    }

    fn poll_close(self: Pin<&mut Self>, _: &mut TaskContext<'_>) -> Poll<io::Result<()>> {
        Poll::Ready(Ok(()))
    }
}

/// PUBLISH, QoS 2, topic "t", subscription identifier 1.
fn publish(id: u16, dup: bool, payload: &[u8]) -> Vec<u8> {
    let mut packet = vec![if dup { 0x3c } else { 0x34 }, (8 + payload.len()) as u8];
    packet.extend([0x00, 0x01, b't']);
    packet.extend(id.to_be_bytes());
    packet.extend([0x02, 0x0b, 0x01]);
    packet.extend_from_slice(payload);
    packet
}

fn pubrel(id: u16) -> Vec<u8> {
    let id = id.to_be_bytes();
    vec![0x62, 0x02, id[0], id[1]]
}

/// DISCONNECT, reason 0: ends `Context::run` gracefully.
fn disconnect() -> Vec<u8> {
    vec![0xe0, 0x02, 0x00, 0x00]
}

/// Plays `script` after the subscription is acknowledged;
/// returns the payloads yielded by the subscription stream and the acknowledgements the client wrote.
fn play(script: Vec<Vec<u8>>) -> (Vec<String>, Vec<(u8, u16)>) {
    let broker = Arc::new(Mutex::new(Broker {
        script: script.concat(),
        ..Default::default()
    }));

    let yielded = block_on(async {
        let (mut ctx, mut handle) = Context::new();
        ctx.set_up((Rx(broker.clone()), Tx(broker.clone())));
        ctx.connect(ConnectOpts::new()).await.unwrap();

        let (served, subscribed) = future::join(ctx.run(), async {
            handle
                .subscribe(
                    SubscribeOpts::new()
                        .subscription("t", SubscriptionOpts::new().maximum_qos(QoS::ExactlyOnce)),
                )
                .await
        })
        .await;
        served.unwrap();

        // The context owns the sending half of the stream.
        drop(ctx);

        subscribed
            .unwrap()
            .stream()
            .map(|msg| String::from_utf8(msg.payload().to_vec()).unwrap())
            .collect::<Vec<_>>()
            .await
    });

    let acks = broker.lock().unwrap().acks.clone();
    (yielded, acks)
}

#[test]
fn redelivery_stays_silent_when_another_identifier_is_released_first() {
    let (yielded, acks) = play(vec![
        publish(1, false, b"m1"),
        publish(2, false, b"m2"),
        pubrel(2),
        // Identifier 1 has been answered with PUBREC, but is not released yet: a re-delivery.
        publish(1, true, b"m1"),
        pubrel(1),
        // Identifier 2 was released above: a new message.
        publish(2, false, b"m3"),
        pubrel(2),
        disconnect(),
    ]);

    assert_eq!(yielded, ["m1", "m2", "m3"]);
    assert_eq!(
        acks,
        [
            (0x50, 1),
            (0x50, 2),
            (0x70, 2),
            (0x50, 1),
            (0x70, 1),
            (0x50, 2),
            (0x70, 2)
        ]
    );
}

#[test]
fn released_identifier_carries_a_new_message() {
    let (yielded, _) = play(vec![
        publish(1, false, b"m1"),
        publish(2, false, b"m2"),
        pubrel(2),
        publish(2, false, b"m3"),
        pubrel(2),
        pubrel(1),
        disconnect(),
    ]);

    assert_eq!(yielded, ["m1", "m2", "m3"]);
}

/// Releases in the order of the deliveries, one identifier in flight at a time.
#[test]
fn in_order_baseline() {
    let (yielded, _) = play(vec![
        publish(1, false, b"m1"),
        publish(1, true, b"m1"),
        pubrel(1),
        publish(1, false, b"m2"),
        publish(2, false, b"m3"),
        pubrel(1),
        pubrel(2),
        publish(2, false, b"m4"),
        pubrel(2),
        disconnect(),
    ]);

    assert_eq!(yielded, ["m1", "m2", "m3", "m4"]);
}
