//! C09: an inbound QoS 2 message is delivered to the application exactly once.
//!
//! A scripted in-memory broker re-sends a QoS 2 PUBLISH whose identifier has been answered with
//! PUBREC but not yet released with PUBREL. The second copy does not carry the DUP flag. Whatever
//! the flag says, the identifier is still unreleased, so the copy must be acknowledged again and
//! must not be yielded a second time.

use futures::{executor::block_on, AsyncRead, AsyncWrite, FutureExt, StreamExt};
use poster::{ConnectOpts, Context, QoS, SubscribeOpts, SubscriptionOpts};
use std::{
    cell::RefCell,
    collections::VecDeque,
    future::Future,
    io,
    pin::Pin,
    rc::Rc,
    task::{Context as TaskContext, Poll, Waker},
};

#[derive(Default)]
struct Wire {
    inbound: VecDeque<u8>,
    written: Vec<u8>,
    rx_waker: Option<Waker>,
}

#[derive(Clone, Default)]
struct Broker(Rc<RefCell<Wire>>);

impl Broker {
    fn send(&self, bytes: &[u8]) {
        let mut wire = self.0.borrow_mut();
        wire.inbound.extend(bytes.iter().copied());
        if let Some(waker) = wire.rx_waker.take() {
            waker.wake();
        }
    }

    fn written(&self) -> Vec<u8> {
        self.0.borrow().written.clone()
    }

    /// Resolves once the client has written at least `len` bytes.
    fn written_at_least(&self, len: usize) -> impl Future<Output = ()> + '_ {
        futures::future::poll_fn(move |cx| {
            if self.0.borrow().written.len() >= len {
                Poll::Ready(())
            } else {
                cx.waker().wake_by_ref();
                Poll::Pending
            }
        })
    }
}

struct Rx(Broker);
struct Tx(Broker);

impl AsyncRead for Rx {
    fn poll_read(
        self: Pin<&mut Self>,
        cx: &mut TaskContext<'_>,
        buf: &mut [u8],
    ) -> Poll<io::Result<usize>> {
        let mut wire = (self.0).0.borrow_mut();
        if wire.inbound.is_empty() {
            wire.rx_waker = Some(cx.waker().clone());
            return Poll::Pending;
        }

        let mut n = 0;
        while n < buf.len() {
            match wire.inbound.pop_front() {
                Some(byte) => {
                    buf[n] = byte;
                    n += 1;
                }
                None => break,
            }
        }
        Poll::Ready(Ok(n))
    }
}

impl AsyncWrite for Tx {
    fn poll_write(
        self: Pin<&mut Self>,
        _: &mut TaskContext<'_>,
        buf: &[u8],
    ) -> Poll<io::Result<usize>> {
        (self.0).0.borrow_mut().written.extend_from_slice(buf);
        Poll::Ready(Ok(buf.len()))
    }

    fn poll_flush(self: Pin<&mut Self>, _: &mut TaskContext<'_>) -> Poll<io::Result<()>> {
        Poll::Ready(Ok(()))
    }

    fn poll_close(self: Pin<&mut Self>, _: &mut TaskContext<'_>) -> Poll<io::Result<()>> {
        Poll::Ready(Ok(()))
    }
}

const CONNACK: [u8; 5] = [0x20, 0x03, 0x00, 0x00, 0x00];
/// SUBACK for packet identifier 1, QoS 2 granted.
const SUBACK: [u8; 6] = [0x90, 0x04, 0x00, 0x01, 0x00, 0x02];
/// Server DISCONNECT, reason 0.
const DISCONNECT: [u8; 4] = [0xe0, 0x02, 0x00, 0x00];

/// QoS 2 PUBLISH on topic "a" for subscription identifier 1.
fn publish_qos2(id: u16, dup: bool, payload: &[u8]) -> Vec<u8> {
    let mut packet = vec![0x34 | ((dup as u8) << 3), (8 + payload.len()) as u8];
    packet.extend_from_slice(&[0x00, 0x01, b'a']);
    packet.extend_from_slice(&id.to_be_bytes());
    packet.extend_from_slice(&[0x02, 0x0b, 0x01]);
    packet.extend_from_slice(payload);
    packet
}

fn pubrel(id: u16) -> Vec<u8> {
    let id = id.to_be_bytes();
    vec![0x62, 0x02, id[0], id[1]]
}

fn pubrec(id: u16) -> Vec<u8> {
    let id = id.to_be_bytes();
    vec![0x50, 0x02, id[0], id[1]]
}

fn pubcomp(id: u16) -> Vec<u8> {
    let id = id.to_be_bytes();
    vec![0x70, 0x02, id[0], id[1]]
}

/// Connects, subscribes, plays `script` followed by a server DISCONNECT, and returns the payloads
/// yielded by the subscription stream together with everything the client wrote after the SUBSCRIBE.
fn play(script: &[Vec<u8>]) -> (Vec<Vec<u8>>, Vec<u8>) {
    block_on(async {
        let broker = Broker::default();
        let (mut ctx, mut handle) = Context::new();
        ctx.set_up((Rx(broker.clone()), Tx(broker.clone())));

        broker.send(&CONNACK);
        ctx.connect(ConnectOpts::new()).await.unwrap();
        let after_connect = broker.written().len();

        let client = async {
            let opts = SubscribeOpts::new()
                .subscription("a", SubscriptionOpts::new().maximum_qos(QoS::ExactlyOnce));

            let (rsp, _) = futures::join!(handle.subscribe(opts), async {
                // The SUBACK must not arrive before the SUBSCRIBE has been written.
                broker.written_at_least(after_connect + 1).await;
                broker.send(&SUBACK);
            });
            let after_subscribe = broker.written().len();

            for packet in script {
                broker.send(packet);
            }
            broker.send(&DISCONNECT);

            (rsp.unwrap().stream(), after_subscribe)
        };

        let (run_result, (mut stream, after_subscribe)) = futures::join!(ctx.run(), client);
        run_result.unwrap();

        let mut yielded = Vec::new();
        while let Some(Some(data)) = stream.next().now_or_never() {
            yielded.push(data.payload().to_vec());
        }

        (yielded, broker.written()[after_subscribe..].to_vec())
    })
}

#[test]
fn resend_before_pubrel_is_not_yielded_twice() {
    let (yielded, written) = play(&[
        publish_qos2(7, false, b"m1"),
        // Sent again before the PUBREL, flag not set.
        publish_qos2(7, false, b"m1"),
        pubrel(7),
    ]);

    // Both copies are answered with PUBREC, the PUBREL with PUBCOMP.
    assert_eq!(written, [pubrec(7), pubrec(7), pubcomp(7)].concat());
    assert_eq!(yielded, vec![b"m1".to_vec()], "message yielded more than once");
}

#[test]
fn each_message_once_with_identifier_reuse() {
    let (yielded, written) = play(&[
        publish_qos2(1, false, b"a1"),
        publish_qos2(2, false, b"b1"),
        publish_qos2(1, false, b"a1"), // re-delivery of the first message
        publish_qos2(2, true, b"b1"),  // re-delivery of the second message
        pubrel(1),
        pubrel(2),
        // Both identifiers are free again. The first copy of this new message got lost on the
        // broker's side, so the one which arrives is flagged.
        publish_qos2(1, true, b"a2"),
        publish_qos2(1, true, b"a2"), // and its re-delivery
        pubrel(1),
    ]);

    assert_eq!(
        written,
        [
            pubrec(1),
            pubrec(2),
            pubrec(1),
            pubrec(2),
            pubcomp(1),
            pubcomp(2),
            pubrec(1),
            pubrec(1),
            pubcomp(1)
        ]
        .concat()
    );
    assert_eq!(
        yielded,
        vec![b"a1".to_vec(), b"b1".to_vec(), b"a2".to_vec()],
        "every distinct message must be yielded exactly once"
    );
}
