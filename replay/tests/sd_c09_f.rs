//! Inbound QoS 2 "exactly once" while an outbound QoS 2 publish of the client happens to use the
//! same packet identifier (the two directions have independent identifier spaces).

use futures::{
    executor::LocalPool,
    task::LocalSpawnExt,
    AsyncRead, AsyncWrite, StreamExt,
};
use poster::{ConnectOpts, Context, PublishOpts, QoS, SubscribeOpts, SubscriptionOpts};
use std::{
    cell::RefCell,
    collections::VecDeque,
    io,
    pin::Pin,
    rc::Rc,
    task::{Context as TaskCx, Poll, Waker},
};

#[derive(Default)]
struct PipeInner {
    data: VecDeque<u8>,
    waker: Option<Waker>,
}

#[derive(Clone, Default)]
struct Pipe(Rc<RefCell<PipeInner>>);

impl Pipe {
    fn push(&self, bytes: &[u8]) {
        let mut inner = self.0.borrow_mut();
        inner.data.extend(bytes.iter().copied());
        if let Some(waker) = inner.waker.take() {
            waker.wake();
        }
    }

    fn drain(&self) -> Vec<u8> {
        self.0.borrow_mut().data.drain(..).collect()
    }
}

impl AsyncRead for Pipe {
    fn poll_read(
        self: Pin<&mut Self>,
        cx: &mut TaskCx<'_>,
        buf: &mut [u8],
    ) -> Poll<io::Result<usize>> {
        let mut inner = self.0.borrow_mut();
        if inner.data.is_empty() {
            inner.waker = Some(cx.waker().clone());
            return Poll::Pending;
        }
        let n = buf.len().min(inner.data.len());
        for slot in buf.iter_mut().take(n) {
            *slot = inner.data.pop_front().unwrap();
        }
        Poll::Ready(Ok(n))
    }
}

impl AsyncWrite for Pipe {
    fn poll_write(
        self: Pin<&mut Self>,
        _: &mut TaskCx<'_>,
        buf: &[u8],
    ) -> Poll<io::Result<usize>> {
        self.0.borrow_mut().data.extend(buf.iter().copied());
        Poll::Ready(Ok(buf.len()))
    }

    fn poll_flush(self: Pin<&mut Self>, _: &mut TaskCx<'_>) -> Poll<io::Result<()>> {
        Poll::Ready(Ok(()))
    }

    fn poll_close(self: Pin<&mut Self>, _: &mut TaskCx<'_>) -> Poll<io::Result<()>> {
        Poll::Ready(Ok(()))
    }
}

/// Splits a byte sequence into MQTT packets (fixed header included).
fn packets(mut bytes: &[u8]) -> Vec<Vec<u8>> {
    let mut out = Vec::new();
    while !bytes.is_empty() {
        let mut len = 0usize;
        let mut shift = 0;
        let mut idx = 1;
        loop {
            let b = bytes[idx];
            len |= ((b & 0x7f) as usize) << shift;
            shift += 7;
            idx += 1;
            if b & 0x80 == 0 {
                break;
            }
        }
        out.push(bytes[..idx + len].to_vec());
        bytes = &bytes[idx + len..];
    }
    out
}

/// Inbound QoS 2 PUBLISH on topic "t" with subscription identifier 1.
fn publish_qos2(id: u16, dup: bool, payload: &[u8]) -> Vec<u8> {
    let mut body = vec![0x00, 0x01, b't', (id >> 8) as u8, id as u8, 0x02, 0x0b, 0x01];
    body.extend_from_slice(payload);
    let mut pkt = vec![0x34 | ((dup as u8) << 3), body.len() as u8];
    pkt.extend(body);
    pkt
}

fn ack(first: u8, id: u16) -> Vec<u8> {
    vec![first, 0x04, (id >> 8) as u8, id as u8, 0x00, 0x00]
}

/// The client wrote exactly one acknowledgement of the given type for `id` (reason success).
fn assert_acks(bytes: &[u8], first: u8, id: u16) {
    let out = packets(bytes);
    assert_eq!(out.len(), 1);
    assert_eq!(out[0][0], first);
    assert_eq!(&out[0][2..4], &[(id >> 8) as u8, id as u8]);
    assert!(out[0].len() == 4 || out[0][4] == 0x00);
}

#[test]
fn inbound_qos2_message_is_yielded_exactly_once() {
    let to_client = Pipe::default();
    let from_client = Pipe::default();

    let mut pool = LocalPool::new();
    let spawner = pool.spawner();

    let (mut ctx, handle) = Context::new();
    ctx.set_up((to_client.clone(), from_client.clone()));

    // CONNACK: session present 0, reason 0, no properties.
    to_client.push(&[0x20, 0x03, 0x00, 0x00, 0x00]);
    pool.run_until(ctx.connect(ConnectOpts::new())).unwrap();
    let connect = from_client.drain();
    assert_eq!(connect[0] >> 4, 1);

    spawner
        .spawn_local(async move {
            let _ = ctx.run().await;
        })
        .unwrap();

    // Application: one subscription, payloads of yielded messages are collected.
    let items: Rc<RefCell<Vec<Vec<u8>>>> = Rc::default();
    {
        let items = items.clone();
        let mut handle = handle.clone();
        spawner
            .spawn_local(async move {
                let rsp = handle
                    .subscribe(
                        SubscribeOpts::new()
                            .subscription("t", SubscriptionOpts::new().maximum_qos(QoS::ExactlyOnce)),
                    )
                    .await
                    .unwrap();
                let mut stream = rsp.stream();
                while let Some(msg) = stream.next().await {
                    items.borrow_mut().push(msg.payload().to_vec());
                }
            })
            .unwrap();
    }

    pool.run_until_stalled();
    let out = packets(&from_client.drain());
    assert_eq!(out.len(), 1);
    let subscribe = &out[0];
    assert_eq!(subscribe[0] >> 4, 8);
    // Subscription identifier property with value 1.
    assert_eq!(&subscribe[4..7], &[0x02, 0x0b, 0x01]);
    // SUBACK, granted QoS 2.
    to_client.push(&[0x90, 0x04, subscribe[2], subscribe[3], 0x00, 0x02]);
    pool.run_until_stalled();

    // Application publishes a QoS 2 message of its own.
    let published: Rc<RefCell<Option<bool>>> = Rc::default();
    {
        let published = published.clone();
        let mut handle = handle.clone();
        spawner
            .spawn_local(async move {
                let res = handle
                    .publish(
                        PublishOpts::new()
                            .topic_name("out")
                            .qos(QoS::ExactlyOnce)
                            .payload(b"x"),
                    )
                    .await;
                *published.borrow_mut() = Some(res.is_ok());
            })
            .unwrap();
    }
    pool.run_until_stalled();
    let out = packets(&from_client.drain());
    assert_eq!(out.len(), 1);
    let publish = &out[0];
    assert_eq!(publish[0], 0x34);
    // Topic "out" (2 + 3 bytes), then the packet identifier chosen by the client.
    let id = ((publish[7] as u16) << 8) | publish[8] as u16;

    // The broker sends a QoS 2 message to the client; its identifier space is independent of the
    // client's, the value is the same by coincidence (both sides start counting from small numbers).
    to_client.push(&publish_qos2(id, false, b"m1"));
    pool.run_until_stalled();
    assert_acks(&from_client.drain(), 0x50, id);
    assert_eq!(*items.borrow(), vec![b"m1".to_vec()]);

    // The client's own publish runs to completion: PUBREC -> PUBREL -> PUBCOMP.
    to_client.push(&ack(0x50, id));
    pool.run_until_stalled();
    let out = packets(&from_client.drain());
    assert_eq!(out.len(), 1);
    assert_eq!(out[0][0], 0x62);
    to_client.push(&ack(0x70, id));
    pool.run_until_stalled();
    assert_eq!(*published.borrow(), Some(true));
    assert!(from_client.drain().is_empty());

    // The inbound message has not been released yet; it is sent again.
    to_client.push(&publish_qos2(id, true, b"m1"));
    pool.run_until_stalled();
    assert_acks(&from_client.drain(), 0x50, id);
    assert_eq!(
        *items.borrow(),
        vec![b"m1".to_vec()],
        "re-delivery before PUBREL must not be yielded again"
    );

    // PUBREL ends the inbound exchange, the identifier then carries a new message.
    to_client.push(&ack(0x62, id));
    pool.run_until_stalled();
    assert_acks(&from_client.drain(), 0x70, id);

    to_client.push(&publish_qos2(id, false, b"m2"));
    pool.run_until_stalled();
    assert_acks(&from_client.drain(), 0x50, id);
    assert_eq!(*items.borrow(), vec![b"m1".to_vec(), b"m2".to_vec()]);
}
