//! Demonstration for property C10 (Receive Maximum is never exceeded).
//!
//! An in-memory scripted broker announces Receive Maximum = 1. A QoS 2 publish is answered with
//! PUBREC carrying reason 0x10 ("No matching subscribers"), which is a *successful* PUBREC: the
//! exchange goes on with PUBREL/PUBCOMP and its quota slot stays occupied until PUBCOMP.
//! While that exchange is still open, any further QoS>0 publish must be refused with
//! QuotaExceeded and nothing may be written to the socket.

use futures::{
    executor::LocalPool,
    task::LocalSpawnExt,
    AsyncRead, AsyncWrite,
};
use poster::{error::MqttError, ConnectOpts, Context, ContextHandle, PublishOpts, QoS};
use std::{
    cell::RefCell,
    collections::VecDeque,
    io,
    pin::Pin,
    rc::Rc,
    task::{Context as TaskContext, Poll, Waker},
};

// ---------------------------------------------------------------------------------------------
// In-memory transport
// ---------------------------------------------------------------------------------------------

#[derive(Default)]
struct Wire {
    to_client: VecDeque<u8>,
    reader_waker: Option<Waker>,
    from_client: Vec<u8>,
}

#[derive(Clone, Default)]
struct Broker(Rc<RefCell<Wire>>);

struct ReadHalf(Rc<RefCell<Wire>>);
struct WriteHalf(Rc<RefCell<Wire>>);

impl AsyncRead for ReadHalf {
    fn poll_read(
        self: Pin<&mut Self>,
        cx: &mut TaskContext<'_>,
        buf: &mut [u8],
    ) -> Poll<io::Result<usize>> {
        let mut wire = self.0.borrow_mut();
        if wire.to_client.is_empty() {
            wire.reader_waker = Some(cx.waker().clone());
            return Poll::Pending;
        }

        let mut n = 0;
        while n < buf.len() {
            match wire.to_client.pop_front() {
                Some(byte) => {
                    buf[n] = byte;
                    n += 1;
                }
                None => break,
            }
        }
        Poll::Ready(Ok(n))
    }
}

impl AsyncWrite for WriteHalf {
    fn poll_write(
        self: Pin<&mut Self>,
        _: &mut TaskContext<'_>,
        buf: &[u8],
    ) -> Poll<io::Result<usize>> {
        self.0.borrow_mut().from_client.extend_from_slice(buf);
        Poll::Ready(Ok(buf.len()))
    }

    fn poll_flush(self: Pin<&mut Self>, _: &mut TaskContext<'_>) -> Poll<io::Result<()>> {
        Poll::Ready(Ok(()))
    }

    fn poll_close(self: Pin<&mut Self>, _: &mut TaskContext<'_>) -> Poll<io::Result<()>> {
        Poll::Ready(Ok(()))
    }
}

impl Broker {
    fn halves(&self) -> (ReadHalf, WriteHalf) {
        (ReadHalf(self.0.clone()), WriteHalf(self.0.clone()))
    }

    /// Broker -> client.
    fn send(&self, bytes: &[u8]) {
        let mut wire = self.0.borrow_mut();
        wire.to_client.extend(bytes.iter().copied());
        if let Some(waker) = wire.reader_waker.take() {
            waker.wake();
        }
    }

    /// Everything the client has written so far, split into MQTT packets.
    fn received(&self) -> Vec<Vec<u8>> {
        let wire = self.0.borrow();
        let bytes = &wire.from_client;
        let mut packets = Vec::new();
        let mut pos = 0;
        while pos < bytes.len() {
            let start = pos;
            pos += 1;
            let mut remaining = 0usize;
            let mut shift = 0;
            loop {
                let byte = bytes[pos];
                pos += 1;
                remaining |= ((byte & 0x7f) as usize) << shift;
                shift += 7;
                if byte & 0x80 == 0 {
                    break;
                }
            }
            pos += remaining;
            packets.push(bytes[start..pos].to_vec());
        }
        packets
    }

    /// Packet identifiers of all QoS>0 PUBLISH packets written by the client, in order.
    fn publishes(&self) -> Vec<u16> {
        self.received()
            .iter()
            .filter(|packet| packet[0] >> 4 == 3 && (packet[0] >> 1) & 0x03 != 0)
            .map(|packet| {
                // fixed header (1) + remaining length (1, packets here are tiny)
                let topic_len = u16::from_be_bytes([packet[2], packet[3]]) as usize;
                u16::from_be_bytes([packet[4 + topic_len], packet[5 + topic_len]])
            })
            .collect()
    }

    fn count_of_type(&self, packet_type: u8) -> usize {
        self.received()
            .iter()
            .filter(|packet| packet[0] >> 4 == packet_type)
            .count()
    }
}

// ---------------------------------------------------------------------------------------------
// Helpers
// ---------------------------------------------------------------------------------------------

type Outcome = Rc<RefCell<Option<Result<(), MqttError>>>>;

fn spawn_publish(pool: &LocalPool, handle: &ContextHandle, qos: QoS, topic: &'static str) -> Outcome {
    let outcome: Outcome = Rc::new(RefCell::new(None));
    let slot = outcome.clone();
    let mut handle = handle.clone();
    pool.spawner()
        .spawn_local(async move {
            let result = handle
                .publish(PublishOpts::new().qos(qos).topic_name(topic).payload(b"x"))
                .await;
            *slot.borrow_mut() = Some(result);
        })
        .unwrap();
    outcome
}

fn is_pending(outcome: &Outcome) -> bool {
    outcome.borrow().is_none()
}

fn is_ok(outcome: &Outcome) -> bool {
    matches!(*outcome.borrow(), Some(Ok(())))
}

fn is_quota_exceeded(outcome: &Outcome) -> bool {
    matches!(*outcome.borrow(), Some(Err(MqttError::QuotaExceeded(_))))
}

/// Connects against a broker announcing Receive Maximum = `receive_maximum`, then serves the
/// connection on the pool.
fn start(pool: &mut LocalPool, receive_maximum: u16) -> (Broker, ContextHandle) {
    let broker = Broker::default();
    let (mut ctx, handle) = Context::new();
    ctx.set_up(broker.halves());

    // CONNACK, success, properties: Receive Maximum (0x21).
    let rm = receive_maximum.to_be_bytes();
    broker.send(&[0x20, 0x06, 0x00, 0x00, 0x03, 0x21, rm[0], rm[1]]);

    let rsp = pool
        .run_until(async { ctx.connect(ConnectOpts::new()).await })
        .expect("connect");
    match rsp {
        poster::prelude::Either::Left(rsp) => assert_eq!(rsp.receive_maximum(), receive_maximum),
        _ => panic!("unexpected AUTH"),
    }

    pool.spawner()
        .spawn_local(async move {
            let _ = ctx.run().await;
        })
        .unwrap();

    (broker, handle)
}

/// The scenario, parametrised by the (successful, i.e. < 0x80) reason carried in PUBREC.
fn qos2_slot_is_held_until_pubcomp(pubrec: &[u8]) {
    let mut pool = LocalPool::new();
    let (broker, handle) = start(&mut pool, 1);

    // 1. QoS 2 publish takes the only slot.
    let first = spawn_publish(&pool, &handle, QoS::ExactlyOnce, "a");
    pool.run_until_stalled();
    let ids = broker.publishes();
    assert_eq!(ids.len(), 1, "first publish must be written");
    let first_id = ids[0].to_be_bytes();
    assert!(is_pending(&first));

    // 2. Broker answers with a successful PUBREC; client goes on with PUBREL.
    let mut packet = pubrec.to_vec();
    packet[2] = first_id[0];
    packet[3] = first_id[1];
    broker.send(&packet);
    pool.run_until_stalled();
    assert_eq!(broker.count_of_type(6), 1, "PUBREL must follow a successful PUBREC");
    assert!(is_pending(&first), "QoS 2 exchange is not complete before PUBCOMP");

    // 3. The exchange is still open (no PUBCOMP yet), hence 1 of 1 slots is in use:
    //    another QoS>0 publish must be refused and must not reach the wire.
    let second = spawn_publish(&pool, &handle, QoS::AtLeastOnce, "b");
    pool.run_until_stalled();
    assert_eq!(
        broker.publishes().len(),
        1,
        "Receive Maximum 1 exceeded: second QoS>0 PUBLISH written while the first is incomplete"
    );
    assert!(
        is_quota_exceeded(&second),
        "publish over the quota must fail with QuotaExceeded"
    );

    // 4. PUBCOMP completes the exchange and frees the slot...
    broker.send(&[0x70, 0x02, first_id[0], first_id[1]]);
    pool.run_until_stalled();
    assert!(is_ok(&first));

    // 5. ...so exactly one further publish is accepted again.
    let third = spawn_publish(&pool, &handle, QoS::AtLeastOnce, "c");
    let fourth = spawn_publish(&pool, &handle, QoS::AtLeastOnce, "d");
    pool.run_until_stalled();
    let ids = broker.publishes();
    assert_eq!(ids.len(), 2, "exactly one more publish fits into the quota");
    assert!(is_pending(&third));
    assert!(is_quota_exceeded(&fourth));

    let third_id = ids[1].to_be_bytes();
    broker.send(&[0x40, 0x02, third_id[0], third_id[1]]);
    pool.run_until_stalled();
    assert!(is_ok(&third));
}

// ---------------------------------------------------------------------------------------------
// Tests
// ---------------------------------------------------------------------------------------------

/// Baseline: PUBREC in its short form (reason 0x00 implied).
#[test]
fn pubrec_success_holds_the_slot() {
    qos2_slot_is_held_until_pubcomp(&[0x50, 0x02, 0x00, 0x00]);
}

/// PUBREC with explicit reason 0x00.
#[test]
fn pubrec_explicit_success_holds_the_slot() {
    qos2_slot_is_held_until_pubcomp(&[0x50, 0x03, 0x00, 0x00, 0x00]);
}

/// PUBREC with reason 0x10 (No matching subscribers) is still a success (< 0x80): the sender
/// continues with PUBREL and the slot stays occupied until PUBCOMP.
#[test]
fn pubrec_no_matching_subscribers_holds_the_slot() {
    qos2_slot_is_held_until_pubcomp(&[0x50, 0x03, 0x00, 0x00, 0x10]);
}
