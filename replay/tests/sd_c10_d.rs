//! C10 demonstration: the Receive Maximum announced in CONNACK bounds the number of
//! outstanding QoS>0 publishes, also when the CONNACK reports a resumed session
//! (Session Present = 1).

use futures::{
    executor::LocalPool,
    task::LocalSpawnExt,
    AsyncRead, AsyncWrite,
};
use poster::{error::MqttError, ConnectOpts, Context, ContextHandle, PublishOpts, QoS};
use std::{
    cell::RefCell,
    collections::VecDeque,
    io,
    pin::Pin,
    rc::Rc,
    task::{Context as TaskContext, Poll, Waker},
};

#[derive(Default)]
struct Wire {
    inbound: VecDeque<u8>,
    reader: Option<Waker>,
    outbound: Vec<u8>,
}

#[derive(Clone, Default)]
struct Broker(Rc<RefCell<Wire>>);

impl Broker {
    fn feed(&self, bytes: &[u8]) {
        let mut wire = self.0.borrow_mut();
        wire.inbound.extend(bytes.iter().copied());
        if let Some(waker) = wire.reader.take() {
            waker.wake();
        }
    }

    /// Splits everything written by the client so far into MQTT packets.
    fn written_packets(&self) -> Vec<Vec<u8>> {
        let wire = self.0.borrow();
        let buf = &wire.outbound;
        let mut packets = Vec::new();
        let mut pos = 0;
        while pos < buf.len() {
            let start = pos;
            pos += 1;
            let mut len = 0usize;
            let mut shift = 0;
            loop {
                let byte = buf[pos];
                pos += 1;
                len |= ((byte & 0x7f) as usize) << shift;
                shift += 7;
                if byte & 0x80 == 0 {
                    break;
                }
            }
            pos += len;
            packets.push(buf[start..pos].to_vec());
        }
        packets
    }

    fn written_publishes(&self) -> usize {
        self.written_packets()
            .iter()
            .filter(|packet| packet[0] >> 4 == 3)
            .count()
    }
}

struct Rx(Broker);
struct Tx(Broker);

impl AsyncRead for Rx {
    fn poll_read(
        self: Pin<&mut Self>,
        cx: &mut TaskContext<'_>,
        buf: &mut [u8],
    ) -> Poll<io::Result<usize>> {
        let mut wire = (self.0).0.borrow_mut();
        if wire.inbound.is_empty() {
            wire.reader = Some(cx.waker().clone());
            return Poll::Pending;
        }
        let mut n = 0;
        while n < buf.len() {
            match wire.inbound.pop_front() {
                Some(byte) => {
                    buf[n] = byte;
                    n += 1;
                }
                None => break,
            }
        }
        Poll::Ready(Ok(n))
    }
}

impl AsyncWrite for Tx {
    fn poll_write(
        self: Pin<&mut Self>,
        _: &mut TaskContext<'_>,
        buf: &[u8],
    ) -> Poll<io::Result<usize>> {
        (self.0).0.borrow_mut().outbound.extend_from_slice(buf);
        Poll::Ready(Ok(buf.len()))
    }

    fn poll_flush(self: Pin<&mut Self>, _: &mut TaskContext<'_>) -> Poll<io::Result<()>> {
        Poll::Ready(Ok(()))
    }

    fn poll_close(self: Pin<&mut Self>, _: &mut TaskContext<'_>) -> Poll<io::Result<()>> {
        Poll::Ready(Ok(()))
    }
}

type Outcome = Rc<RefCell<Option<Result<(), MqttError>>>>;

fn spawn_publish(pool: &LocalPool, handle: &ContextHandle, qos: QoS) -> Outcome {
    let outcome: Outcome = Rc::new(RefCell::new(None));
    let slot = outcome.clone();
    let mut handle = handle.clone();
    pool.spawner()
        .spawn_local(async move {
            let result = handle
                .publish(PublishOpts::new().topic_name("a/b").qos(qos).payload(b"x"))
                .await;
            *slot.borrow_mut() = Some(result);
        })
        .unwrap();
    outcome
}

fn is_quota_exceeded(outcome: &Outcome) -> bool {
    matches!(
        outcome.borrow().as_ref(),
        Some(Err(MqttError::QuotaExceeded(_)))
    )
}

fn is_pending(outcome: &Outcome) -> bool {
    outcome.borrow().is_none()
}

fn is_ok(outcome: &Outcome) -> bool {
    matches!(outcome.borrow().as_ref(), Some(Ok(())))
}

/// Connects with the given CONNACK (announcing Receive Maximum = 2), then checks that
/// exactly two QoS>0 publishes may be outstanding at any time.
fn receive_maximum_of_two_is_respected(connack: &[u8]) {
    let broker = Broker::default();
    let mut pool = LocalPool::new();

    let (mut ctx, handle) = Context::new();
    ctx.set_up((Rx(broker.clone()), Tx(broker.clone())));

    broker.feed(connack);
    let rsp = pool
        .run_until(ctx.connect(ConnectOpts::new().clean_start(false)))
        .unwrap()
        .left()
        .unwrap();
    assert_eq!(rsp.receive_maximum(), 2);

    pool.spawner()
        .spawn_local(async move {
            let _ = ctx.run().await;
        })
        .unwrap();

    // Two outstanding publishes fill the quota.
    let first = spawn_publish(&pool, &handle, QoS::AtLeastOnce);
    pool.run_until_stalled();
    let second = spawn_publish(&pool, &handle, QoS::ExactlyOnce);
    pool.run_until_stalled();
    assert!(is_pending(&first) && is_pending(&second));
    assert_eq!(broker.written_publishes(), 2);

    // The third one is refused, and nothing is written for it.
    let third = spawn_publish(&pool, &handle, QoS::AtLeastOnce);
    pool.run_until_stalled();
    assert_eq!(
        broker.written_publishes(),
        2,
        "more QoS>0 PUBLISH packets outstanding than Receive Maximum"
    );
    assert!(
        is_quota_exceeded(&third),
        "third publish must fail with QuotaExceeded"
    );

    // QoS 0 is not limited.
    let unlimited = spawn_publish(&pool, &handle, QoS::AtMostOnce);
    pool.run_until_stalled();
    assert!(is_ok(&unlimited));
    assert_eq!(broker.written_publishes(), 3);

    // PUBACK of the first one frees exactly one slot.
    broker.feed(&[0x40, 0x02, 0x00, 0x01]);
    pool.run_until_stalled();
    assert!(is_ok(&first));

    let fourth = spawn_publish(&pool, &handle, QoS::AtLeastOnce);
    pool.run_until_stalled();
    assert!(is_pending(&fourth));
    assert_eq!(broker.written_publishes(), 4);

    let fifth = spawn_publish(&pool, &handle, QoS::AtLeastOnce);
    pool.run_until_stalled();
    assert!(is_quota_exceeded(&fifth));
    assert_eq!(broker.written_publishes(), 4);
}

#[test]
fn receive_maximum_new_session() {
    // CONNACK: Session Present = 0, Success, Receive Maximum = 2.
    receive_maximum_of_two_is_respected(&[0x20, 0x06, 0x00, 0x00, 0x03, 0x21, 0x00, 0x02]);
}

#[test]
fn receive_maximum_resumed_session() {
    // CONNACK: Session Present = 1, Success, Receive Maximum = 2.
    receive_maximum_of_two_is_respected(&[0x20, 0x06, 0x01, 0x00, 0x03, 0x21, 0x00, 0x02]);
}
