//! Receive Maximum must hold when the broker answers two exchanges in one segment.
//!
//! R = 2. A (QoS 2) and B (QoS 1) are in flight, the broker answers with PUBREC(A) and PUBACK(B)
//! back to back. Afterwards A is still incomplete (no PUBCOMP yet), so exactly one more
//! QoS>0 PUBLISH may be sent; the second one has to be refused with QuotaExceeded and must
//! not reach the wire.

use futures::{
    executor::LocalPool,
    task::LocalSpawnExt,
    AsyncRead, AsyncWrite,
};
use poster::{error::MqttError, ConnectOpts, Context, ContextHandle, PublishOpts, QoS};
use std::{
    cell::RefCell,
    collections::VecDeque,
    io,
    pin::Pin,
    rc::Rc,
    task::{Context as TaskContext, Poll, Waker},
};

#[derive(Default)]
struct Inbound {
    bytes: VecDeque<u8>,
    waker: Option<Waker>,
}

/// Broker -> client direction.
#[derive(Clone, Default)]
struct BrokerTx(Rc<RefCell<Inbound>>);

impl BrokerTx {
    fn feed(&self, bytes: &[u8]) {
        let mut inner = self.0.borrow_mut();
        inner.bytes.extend(bytes.iter().copied());
        if let Some(waker) = inner.waker.take() {
            waker.wake();
        }
    }
}

impl AsyncRead for BrokerTx {
    fn poll_read(
        self: Pin<&mut Self>,
        cx: &mut TaskContext<'_>,
        buf: &mut [u8],
    ) -> Poll<io::Result<usize>> {
        let mut inner = self.0.borrow_mut();
        if inner.bytes.is_empty() {
            inner.waker = Some(cx.waker().clone());
            return Poll::Pending;
        }

        let n = buf.len().min(inner.bytes.len());
        for slot in buf.iter_mut().take(n) {
            *slot = inner.bytes.pop_front().unwrap();
        }
        Poll::Ready(Ok(n))
    }
}

/// Client -> broker direction: everything the client writes, in order.
#[derive(Clone, Default)]
struct Wire(Rc<RefCell<Vec<u8>>>);

impl AsyncWrite for Wire {
    fn poll_write(
        self: Pin<&mut Self>,
        _: &mut TaskContext<'_>,
        buf: &[u8],
    ) -> Poll<io::Result<usize>> {
        self.0.borrow_mut().extend_from_slice(buf);
        Poll::Ready(Ok(buf.len()))
    }

    fn poll_flush(self: Pin<&mut Self>, _: &mut TaskContext<'_>) -> Poll<io::Result<()>> {
        Poll::Ready(Ok(()))
    }

    fn poll_close(self: Pin<&mut Self>, _: &mut TaskContext<'_>) -> Poll<io::Result<()>> {
        Poll::Ready(Ok(()))
    }
}

impl Wire {
    /// Packet types (upper nibble of the fixed header) of everything written so far.
    fn packet_types(&self) -> Vec<u8> {
        let bytes = self.0.borrow();
        let mut types = Vec::new();
        let mut pos = 0;

        while pos < bytes.len() {
            types.push(bytes[pos] >> 4);
            pos += 1;

            let mut len = 0usize;
            let mut shift = 0;
            loop {
                let byte = bytes[pos];
                pos += 1;
                len |= ((byte & 0x7f) as usize) << shift;
                shift += 7;
                if byte & 0x80 == 0 {
                    break;
                }
            }
            pos += len;
        }

        assert_eq!(pos, bytes.len(), "truncated packet on the wire");
        types
    }

    fn publishes(&self) -> usize {
        self.packet_types().iter().filter(|&&t| t == 3).count()
    }
}

type Outcome = Rc<RefCell<Option<Result<(), MqttError>>>>;

fn publish(pool: &LocalPool, handle: &ContextHandle, qos: QoS) -> Outcome {
    let outcome = Outcome::default();
    let result = outcome.clone();
    let mut handle = handle.clone();

    pool.spawner()
        .spawn_local(async move {
            let res = handle
                .publish(PublishOpts::new().topic_name("t").qos(qos).payload(b"x"))
                .await;
            *result.borrow_mut() = Some(res);
        })
        .unwrap();

    outcome
}

fn quota_exceeded(outcome: &Outcome) -> bool {
    matches!(
        outcome.borrow().as_ref(),
        Some(Err(MqttError::QuotaExceeded(_)))
    )
}

#[test]
fn receive_maximum_holds_when_pubrec_and_puback_arrive_together() {
    const RECEIVE_MAXIMUM: usize = 2;

    let broker = BrokerTx::default();
    let wire = Wire::default();
    let mut pool = LocalPool::new();

    let (mut ctx, handle) = Context::new();
    ctx.set_up((broker.clone(), wire.clone()));

    // CONNACK: no session, success, Receive Maximum = 2.
    broker.feed(&[0x20, 0x06, 0x00, 0x00, 0x03, 0x21, 0x00, 0x02]);
    pool.run_until(ctx.connect(ConnectOpts::new())).unwrap();

    pool.spawner()
        .spawn_local(async move {
            let _ = ctx.run().await;
        })
        .unwrap();

    // A: QoS 2, identifier 1. B: QoS 1, identifier 2.
    let a = publish(&pool, &handle, QoS::ExactlyOnce);
    pool.run_until_stalled();
    let b = publish(&pool, &handle, QoS::AtLeastOnce);
    pool.run_until_stalled();
    assert_eq!(wire.publishes(), 2);

    // Both slots are taken.
    let refused = publish(&pool, &handle, QoS::AtLeastOnce); // identifier 3
    pool.run_until_stalled();
    assert!(quota_exceeded(&refused));
    assert_eq!(wire.publishes(), 2);

    // PUBREC(1, success) and PUBACK(2, success) in one segment.
    broker.feed(&[0x50, 0x02, 0x00, 0x01, 0x40, 0x02, 0x00, 0x02]);
    pool.run_until_stalled();

    assert!(matches!(b.borrow().as_ref(), Some(Ok(())))); // B is complete,
    assert!(a.borrow().is_none()); // A is not: PUBREL is out, PUBCOMP has not arrived.
    assert_eq!(wire.packet_types().last(), Some(&6));

    let completed = 1; // B only
    let mut outstanding = wire.publishes() - completed;
    assert_eq!(outstanding, 1);

    // One slot is free, not two.
    let c = publish(&pool, &handle, QoS::AtLeastOnce); // identifier 4
    pool.run_until_stalled();
    let d = publish(&pool, &handle, QoS::AtLeastOnce); // identifier 5
    pool.run_until_stalled();

    outstanding = wire.publishes() - completed;
    assert!(c.borrow().is_none(), "C is accepted and awaits its PUBACK");
    assert!(
        outstanding <= RECEIVE_MAXIMUM,
        "{} QoS>0 PUBLISH packets outstanding, Receive Maximum is {}",
        outstanding,
        RECEIVE_MAXIMUM
    );
    assert!(
        quota_exceeded(&d),
        "D must be refused with QuotaExceeded while A and C are outstanding"
    );

    // PUBCOMP(1) and PUBACK(4) complete A and C: two publishes are accepted again, a third is not.
    broker.feed(&[0x70, 0x02, 0x00, 0x01]);
    pool.run_until_stalled();
    broker.feed(&[0x40, 0x02, 0x00, 0x04]);
    pool.run_until_stalled();
    assert!(matches!(a.borrow().as_ref(), Some(Ok(()))));
    assert!(matches!(c.borrow().as_ref(), Some(Ok(()))));

    let before = wire.publishes();
    let e = publish(&pool, &handle, QoS::AtLeastOnce);
    pool.run_until_stalled();
    let f = publish(&pool, &handle, QoS::ExactlyOnce);
    pool.run_until_stalled();
    let g = publish(&pool, &handle, QoS::AtLeastOnce);
    pool.run_until_stalled();
    assert!(e.borrow().is_none() && f.borrow().is_none());
    assert!(quota_exceeded(&g));
    assert_eq!(wire.publishes(), before + 2);
}
