//! C11 demonstration: packet identifiers stay non-zero and unique among outstanding
//! operations across the 16-bit identifier wrap-around.
//!
//! A scripted in-memory broker acknowledges QoS 1 publishes one by one until the client's
//! identifier counter has gone through all 65535 valid values. Then two publishes are issued
//! from two different clones of the handle and deliberately left unacknowledged, so both are
//! outstanding at once right at the wrap-around point. Their packet identifiers must differ.

use futures::{
    executor::LocalPool,
    task::LocalSpawnExt,
    AsyncRead, AsyncWrite,
};
use poster::{ConnectOpts, Context, PublishOpts, QoS};
use std::{
    collections::{HashSet, VecDeque},
    io,
    pin::Pin,
    sync::{Arc, Mutex},
    task::{Context as TaskCx, Poll, Waker},
};

#[derive(Default)]
struct Broker {
    /// Bytes the client has written that do not form a whole packet yet.
    inbound: Vec<u8>,
    /// Bytes waiting to be read by the client.
    outbound: VecDeque<u8>,
    read_waker: Option<Waker>,
    /// Acknowledge QoS 1 publishes as soon as they are seen.
    auto_ack: bool,
    /// Identifiers of publishes that were sent and not acknowledged yet.
    outstanding: HashSet<u16>,
    /// Identifiers of all QoS>0 publishes, in order of appearance on the wire.
    publish_ids: Vec<u16>,
    violations: Vec<String>,
}

impl Broker {
    fn send(&mut self, bytes: &[u8]) {
        self.outbound.extend(bytes.iter().copied());
        if let Some(waker) = self.read_waker.take() {
            waker.wake();
        }
    }

    fn ack(&mut self, id: u16) {
        self.outstanding.remove(&id);
        let [hi, lo] = id.to_be_bytes();
        self.send(&[0x40, 0x02, hi, lo]);
    }

    /// Splits whole MQTT packets off the front of `inbound` and processes them.
    fn process(&mut self) {
        loop {
            if self.inbound.len() < 2 {
                return;
            }

            let mut remaining_len = 0usize;
            let mut hdr_len = 1usize;
            let mut complete = false;
            for (i, byte) in self.inbound[1..].iter().take(4).enumerate() {
                remaining_len |= ((byte & 0x7f) as usize) << (7 * i);
                hdr_len += 1;
                if byte & 0x80 == 0 {
                    complete = true;
                    break;
                }
            }

            if !complete || self.inbound.len() < hdr_len + remaining_len {
                return;
            }

            let packet: Vec<u8> = self.inbound.drain(..hdr_len + remaining_len).collect();
            self.on_packet(&packet, hdr_len);
        }
    }

    fn on_packet(&mut self, packet: &[u8], hdr_len: usize) {
        let first = packet[0];
        match first >> 4 {
            // CONNECT
            1 => self.send(&[0x20, 0x03, 0x00, 0x00, 0x00]),
            // PUBLISH
            3 => {
                let qos = (first >> 1) & 0x03;
                if qos == 0 {
                    return;
                }

                let body = &packet[hdr_len..];
                let topic_len = u16::from_be_bytes([body[0], body[1]]) as usize;
                let id = u16::from_be_bytes([body[2 + topic_len], body[3 + topic_len]]);

                self.publish_ids.push(id);

                if id == 0 {
                    self.violations
                        .push(format!("publish #{} carries packet id 0", self.publish_ids.len()));
                }

                if !self.outstanding.insert(id) {
                    self.violations.push(format!(
                        "publish #{} reuses packet id {} of an operation that is still outstanding",
                        self.publish_ids.len(),
                        id
                    ));
                }

                if self.auto_ack {
                    self.ack(id);
                }
            }
            _ => {}
        }
    }
}

#[derive(Clone)]
struct Pipe(Arc<Mutex<Broker>>);

impl AsyncRead for Pipe {
    fn poll_read(
        self: Pin<&mut Self>,
        cx: &mut TaskCx<'_>,
        buf: &mut [u8],
    ) -> Poll<io::Result<usize>> {
        let mut broker = self.0.lock().unwrap();
        if broker.outbound.is_empty() {
            broker.read_waker = Some(cx.waker().clone());
            return Poll::Pending;
        }

        let n = buf.len().min(broker.outbound.len());
        for (dst, src) in buf.iter_mut().zip(broker.outbound.drain(..n)) {
            *dst = src;
        }
        Poll::Ready(Ok(n))
    }
}

impl AsyncWrite for Pipe {
    fn poll_write(
        self: Pin<&mut Self>,
        _: &mut TaskCx<'_>,
        buf: &[u8],
    ) -> Poll<io::Result<usize>> {
        let mut broker = self.0.lock().unwrap();
        broker.inbound.extend_from_slice(buf);
        broker.process();
        Poll::Ready(Ok(buf.len()))
    }

    fn poll_flush(self: Pin<&mut Self>, _: &mut TaskCx<'_>) -> Poll<io::Result<()>> {
        Poll::Ready(Ok(()))
    }

    fn poll_close(self: Pin<&mut Self>, _: &mut TaskCx<'_>) -> Poll<io::Result<()>> {
        Poll::Ready(Ok(()))
    }
}

fn qos1<'a>() -> PublishOpts<'a> {
    PublishOpts::new()
        .topic_name("t")
        .qos(QoS::AtLeastOnce)
        .payload(b"x")
}

#[test]
fn packet_ids_of_outstanding_operations_differ_across_wrap_around() {
    let broker = Arc::new(Mutex::new(Broker {
        auto_ack: true,
        ..Default::default()
    }));
    let pipe = Pipe(broker.clone());

    let mut pool = LocalPool::new();
    let spawner = pool.spawner();

    let (mut ctx, mut handle) = Context::new();

    spawner
        .spawn_local(async move {
            ctx.set_up((pipe.clone(), pipe));
            ctx.connect(ConnectOpts::new()).await.unwrap();
            let _ = ctx.run().await;
        })
        .unwrap();

    // Phase 1: go through every valid identifier once, never more than one outstanding.
    const WARM_UP: usize = u16::MAX as usize;
    {
        let mut handle = handle.clone();
        pool.run_until(async move {
            for _ in 0..WARM_UP {
                handle.publish(qos1()).await.unwrap();
            }
        });
    }

    {
        let mut broker = broker.lock().unwrap();
        assert_eq!(broker.publish_ids.len(), WARM_UP);
        assert!(broker.outstanding.is_empty());
        assert!(broker.violations.is_empty(), "{:?}", broker.violations);
        broker.auto_ack = false;
    }

    // Phase 2: two operations from two clones of the handle, both left outstanding.
    let mut other = handle.clone();
    spawner
        .spawn_local(async move {
            let _ = handle.publish(qos1()).await;
        })
        .unwrap();
    spawner
        .spawn_local(async move {
            let _ = other.publish(qos1()).await;
        })
        .unwrap();

    pool.run_until_stalled();

    let broker = broker.lock().unwrap();
    assert_eq!(broker.publish_ids.len(), WARM_UP + 2);

    let a = broker.publish_ids[WARM_UP];
    let b = broker.publish_ids[WARM_UP + 1];

    assert_ne!(a, 0, "packet id must not be zero");
    assert_ne!(b, 0, "packet id must not be zero");
    assert_ne!(
        a, b,
        "two operations outstanding at the same time carry the same packet id"
    );
    assert!(broker.violations.is_empty(), "{:?}", broker.violations);
}
