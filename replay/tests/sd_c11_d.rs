//! C11 demonstration: every subscribe() call gets its own subscription identifier, also after the
//! packet identifier counter of the client has wrapped around (more than 65535 operations).
//!
//! Scenario (single task, one handle plus a clone):
//!   1. a few subscriptions are made and their streams are kept alive,
//!   2. QoS 1 publishes (each acknowledged at once, so never more than one operation outstanding)
//!      are performed until the packet identifier 65535 has been used,
//!   3. a few more subscriptions are made.
//! All the subscriptions of 1. and 3. are alive at the end, so all their subscription identifiers,
//! as seen on the wire, must be pairwise distinct, and a message the broker tags with the
//! identifier of the newest subscription must reach that subscription's stream and no other.

use futures::{
    executor::block_on,
    future::{self, Either},
    pin_mut, AsyncRead, AsyncWrite, FutureExt, StreamExt,
};
use poster::{ConnectOpts, Context, PublishOpts, QoS, SubscribeOpts, SubscriptionOpts};
use std::{
    cell::RefCell,
    collections::VecDeque,
    io,
    pin::Pin,
    rc::Rc,
    task::{Context as TaskContext, Poll, Waker},
};

/// What the scripted broker has seen, and what it still has to say.
#[derive(Default)]
struct Wire {
    to_client: VecDeque<u8>,
    rx_waker: Option<Waker>,
    from_client: Vec<u8>,

    /// Packet identifiers of the PUBLISH packets, in order.
    publish_ids: Vec<u16>,
    /// (packet identifier, subscription identifier) of the SUBSCRIBE packets, in order.
    subscribes: Vec<(u16, u32)>,
}

fn read_varint(bytes: &[u8]) -> Option<(u32, usize)> {
    let mut val = 0u32;
    for (idx, byte) in bytes.iter().enumerate().take(4) {
        val |= ((byte & 0x7f) as u32) << (7 * idx);
        if byte & 0x80 == 0 {
            return Some((val, idx + 1));
        }
    }
    None
}

fn write_varint(mut val: u32, out: &mut Vec<u8>) {
    loop {
        let byte = (val % 128) as u8;
        val /= 128;
        if val == 0 {
            out.push(byte);
            return;
        }
        out.push(byte | 0x80);
    }
}

impl Wire {
    fn say(&mut self, bytes: &[u8]) {
        self.to_client.extend(bytes.iter().copied());
        if let Some(waker) = self.rx_waker.take() {
            waker.wake();
        }
    }

    /// Answers every complete packet the client has written so far.
    fn serve(&mut self) {
        loop {
            if self.from_client.len() < 2 {
                return;
            }
            let Some((remaining, len_size)) = read_varint(&self.from_client[1..]) else {
                return;
            };
            let total = 1 + len_size + remaining as usize;
            if self.from_client.len() < total {
                return;
            }
            let packet: Vec<u8> = self.from_client.drain(..total).collect();
            let body = &packet[1 + len_size..];

            match packet[0] >> 4 {
                // CONNECT -> CONNACK, success, no properties
                1 => self.say(&[0x20, 0x03, 0x00, 0x00, 0x00]),
                // PUBLISH
                3 => {
                    let qos = (packet[0] >> 1) & 0x03;
                    assert_eq!(qos, 1, "the scenario publishes with QoS 1 only");
                    let topic_len = u16::from_be_bytes([body[0], body[1]]) as usize;
                    let id = u16::from_be_bytes([body[2 + topic_len], body[3 + topic_len]]);
                    self.publish_ids.push(id);
                    let [hi, lo] = id.to_be_bytes();
                    self.say(&[0x40, 0x02, hi, lo]);
                }
                // SUBSCRIBE -> SUBACK granting QoS 0 to every topic filter
                8 => {
                    let id = u16::from_be_bytes([body[0], body[1]]);
                    let (props_len, props_len_size) = read_varint(&body[2..]).unwrap();
                    let props_start = 2 + props_len_size;
                    let props_end = props_start + props_len as usize;

                    let props = &body[props_start..props_end];
                    assert_eq!(props[0], 0x0b, "SUBSCRIBE carries a subscription identifier");
                    let (sub_id, sub_id_size) = read_varint(&props[1..]).unwrap();
                    assert_eq!(1 + sub_id_size, props.len(), "no other property expected");
                    self.subscribes.push((id, sub_id));

                    let mut filters = 0;
                    let mut pos = props_end;
                    while pos < body.len() {
                        let filter_len = u16::from_be_bytes([body[pos], body[pos + 1]]) as usize;
                        pos += 2 + filter_len + 1;
                        filters += 1;
                    }

                    let [hi, lo] = id.to_be_bytes();
                    let mut suback = vec![0x90, (3 + filters) as u8, hi, lo, 0x00];
                    suback.extend(std::iter::repeat(0x00).take(filters));
                    self.say(&suback);
                }
                // PINGREQ -> PINGRESP
                12 => self.say(&[0xd0, 0x00]),
                other => panic!("unexpected packet type {other} from the client"),
            }
        }
    }

    /// Broker-side QoS 0 PUBLISH to the client, tagged with a subscription identifier.
    fn deliver(&mut self, topic: &str, sub_id: u32, payload: &[u8]) {
        let mut props = vec![0x0b];
        write_varint(sub_id, &mut props);

        let mut body = Vec::new();
        body.extend((topic.len() as u16).to_be_bytes());
        body.extend(topic.as_bytes());
        write_varint(props.len() as u32, &mut body);
        body.extend(props);
        body.extend(payload);

        let mut packet = vec![0x30];
        write_varint(body.len() as u32, &mut packet);
        packet.extend(body);
        self.say(&packet);
    }
}

struct Rx(Rc<RefCell<Wire>>);
struct Tx(Rc<RefCell<Wire>>);

impl AsyncRead for Rx {
    fn poll_read(
        self: Pin<&mut Self>,
        cx: &mut TaskContext<'_>,
        buf: &mut [u8],
    ) -> Poll<io::Result<usize>> {
        let mut wire = self.0.borrow_mut();
        if wire.to_client.is_empty() {
            wire.rx_waker = Some(cx.waker().clone());
            return Poll::Pending;
        }
        let count = buf.len().min(wire.to_client.len());
        for (dst, src) in buf.iter_mut().zip(wire.to_client.drain(..count)) {
            *dst = src;
        }
        Poll::Ready(Ok(count))
    }
}

impl AsyncWrite for Tx {
    fn poll_write(
        self: Pin<&mut Self>,
        _: &mut TaskContext<'_>,
        buf: &[u8],
    ) -> Poll<io::Result<usize>> {
        let mut wire = self.0.borrow_mut();
        wire.from_client.extend_from_slice(buf);
        wire.serve();
        Poll::Ready(Ok(buf.len()))
    }

    fn poll_flush(self: Pin<&mut Self>, _: &mut TaskContext<'_>) -> Poll<io::Result<()>> {
        Poll::Ready(Ok(()))
    }

    fn poll_close(self: Pin<&mut Self>, _: &mut TaskContext<'_>) -> Poll<io::Result<()>> {
        Poll::Ready(Ok(()))
    }
}

#[test]
fn subscription_identifiers_stay_distinct_after_packet_id_wrap_around() {
    const EARLY: usize = 8;
    const LATE: usize = 8;

    let wire = Rc::new(RefCell::new(Wire::default()));

    let (mut ctx, mut handle) = Context::new();
    ctx.set_up((Rx(wire.clone()), Tx(wire.clone())));

    block_on(async {
        ctx.connect(ConnectOpts::new()).await.expect("connect");

        let run = ctx.run();
        pin_mut!(run);

        let client_wire = wire.clone();
        let client = async move {
            let wire = client_wire;
            let mut other = handle.clone();
            let mut streams = Vec::new();

            // 1. Subscriptions that stay alive for the whole test.
            for idx in 0..EARLY {
                let topic = format!("early/{idx}");
                let who = if idx % 2 == 0 { &mut handle } else { &mut other };
                let rsp = who
                    .subscribe(SubscribeOpts::new().subscription(&topic, SubscriptionOpts::new()))
                    .await
                    .expect("early subscribe");
                streams.push(rsp.stream());
            }

            // 2. One acknowledged QoS 1 publish after another, until identifier 65535 was used.
            //    (At most one operation is outstanding at any time.)
            let mut published = 0usize;
            loop {
                let who = if published % 2 == 0 { &mut handle } else { &mut other };
                who.publish(
                    PublishOpts::new()
                        .topic_name("t")
                        .qos(QoS::AtLeastOnce)
                        .payload(b"x"),
                )
                .await
                .expect("publish");
                published += 1;

                let last = *wire.borrow().publish_ids.last().unwrap();
                assert_ne!(last, 0, "packet identifier 0 on the wire");
                if last == u16::MAX {
                    break;
                }
                assert!(published < 70_000, "identifier 65535 never showed up");
            }

            // 3. More subscriptions, after the packet identifier wrap-around.
            for idx in 0..LATE {
                let topic = format!("late/{idx}");
                let who = if idx % 2 == 0 { &mut other } else { &mut handle };
                let rsp = who
                    .subscribe(SubscribeOpts::new().subscription(&topic, SubscriptionOpts::new()))
                    .await
                    .expect("late subscribe");
                streams.push(rsp.stream());
            }

            // The broker sends a message for the newest subscription only.
            let newest_sub_id = wire.borrow().subscribes.last().unwrap().1;
            wire.borrow_mut().deliver("late/x", newest_sub_id, b"hello");
            // PINGRESP is queued behind that message, so it has been dispatched once ping returns.
            handle.ping().await.expect("ping");

            let mut received = Vec::new();
            for (idx, stream) in streams.iter_mut().enumerate() {
                if let Some(Some(data)) = stream.next().now_or_never() {
                    assert_eq!(data.payload(), b"hello");
                    received.push(idx);
                }
            }
            received
        };
        pin_mut!(client);

        let received = match future::select(run, client).await {
            Either::Left((res, _)) => panic!("context stopped early: {:?}", res.map_err(|e| e.to_string())),
            Either::Right((received, _)) => received,
        };

        let wire = wire.borrow();
        assert_eq!(wire.subscribes.len(), EARLY + LATE);

        // Every identifier on the wire is non-zero.
        assert!(wire.publish_ids.iter().all(|&id| id != 0));
        assert!(wire.subscribes.iter().all(|&(id, sub_id)| id != 0 && sub_id != 0));

        // All subscriptions are alive: their subscription identifiers must be pairwise distinct.
        for (i, &(_, a)) in wire.subscribes.iter().enumerate() {
            for (j, &(_, b)) in wire.subscribes.iter().enumerate().skip(i + 1) {
                assert_ne!(
                    a, b,
                    "subscribe() calls #{i} and #{j} were given the same subscription identifier {a} \
                     (all SUBSCRIBE (packet id, subscription id): {:?})",
                    wire.subscribes
                );
            }
        }

        // The message for the newest subscription reached its stream, and only that one.
        assert_eq!(received, vec![EARLY + LATE - 1]);
    });
}
