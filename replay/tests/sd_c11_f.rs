//! C11: packet identifiers of operations outstanding at the same time are distinct, also when
//! the operations are issued from different clones of the handle.
//!
//! History: one handle completes a SUBSCRIBE, is cloned afterwards, and the original and the
//! clone then each have a QoS 1 PUBLISH in flight at the same time.

use futures::{
    executor::LocalPool,
    io::{AsyncRead, AsyncWrite},
    task::LocalSpawnExt,
};
use poster::{ConnectOpts, Context, PublishOpts, QoS, SubscribeOpts, SubscriptionOpts};
use std::{
    cell::RefCell,
    collections::VecDeque,
    io,
    pin::Pin,
    rc::Rc,
    task::{Context as TaskCx, Poll, Waker},
};

#[derive(Default)]
struct Pipe {
    buf: VecDeque<u8>,
    waker: Option<Waker>,
}

/// Broker -> client direction.
#[derive(Clone, Default)]
struct ToClient(Rc<RefCell<Pipe>>);

/// Client -> broker direction.
#[derive(Clone, Default)]
struct ToBroker(Rc<RefCell<Pipe>>);

impl ToClient {
    fn feed(&self, bytes: &[u8]) {
        let mut pipe = self.0.borrow_mut();
        pipe.buf.extend(bytes.iter().copied());
        if let Some(waker) = pipe.waker.take() {
            waker.wake();
        }
    }
}

impl AsyncRead for ToClient {
    fn poll_read(
        self: Pin<&mut Self>,
        cx: &mut TaskCx<'_>,
        out: &mut [u8],
    ) -> Poll<io::Result<usize>> {
        let mut pipe = self.0.borrow_mut();
        if pipe.buf.is_empty() {
            pipe.waker = Some(cx.waker().clone());
            return Poll::Pending;
        }

        let n = out.len().min(pipe.buf.len());
        for slot in out.iter_mut().take(n) {
            *slot = pipe.buf.pop_front().unwrap();
        }
        Poll::Ready(Ok(n))
    }
}

impl AsyncWrite for ToBroker {
    fn poll_write(
        self: Pin<&mut Self>,
        _: &mut TaskCx<'_>,
        data: &[u8],
    ) -> Poll<io::Result<usize>> {
        self.0.borrow_mut().buf.extend(data.iter().copied());
        Poll::Ready(Ok(data.len()))
    }

    fn poll_flush(self: Pin<&mut Self>, _: &mut TaskCx<'_>) -> Poll<io::Result<()>> {
        Poll::Ready(Ok(()))
    }

    fn poll_close(self: Pin<&mut Self>, _: &mut TaskCx<'_>) -> Poll<io::Result<()>> {
        Poll::Ready(Ok(()))
    }
}

impl ToBroker {
    /// Takes every complete packet the client has written so far: (packet type, packet identifier).
    /// The identifier is 0 for packets which do not carry one.
    fn packets(&self) -> Vec<(u8, u16)> {
        let mut pipe = self.0.borrow_mut();
        let bytes: Vec<u8> = pipe.buf.drain(..).collect();
        let mut out = Vec::new();
        let mut pos = 0;

        while pos < bytes.len() {
            let hdr = bytes[pos];
            pos += 1;

            let (mut remaining, mut shift) = (0usize, 0);
            loop {
                let b = bytes[pos];
                pos += 1;
                remaining |= ((b & 0x7f) as usize) << shift;
                shift += 7;
                if b & 0x80 == 0 {
                    break;
                }
            }

            let body = &bytes[pos..pos + remaining];
            pos += remaining;

            let id = match hdr >> 4 {
                // PUBLISH with QoS>0: topic name first, then the identifier.
                3 if hdr & 0x06 != 0 => {
                    let topic_len = u16::from_be_bytes([body[0], body[1]]) as usize;
                    u16::from_be_bytes([body[2 + topic_len], body[3 + topic_len]])
                }
                // SUBSCRIBE, UNSUBSCRIBE, PUBREL
                8 | 10 | 6 => u16::from_be_bytes([body[0], body[1]]),
                _ => 0,
            };
            out.push((hdr >> 4, id));
        }

        out
    }
}

#[test]
fn outstanding_publishes_from_two_clones_have_distinct_identifiers() {
    let to_client = ToClient::default();
    let to_broker = ToBroker::default();

    let mut pool = LocalPool::new();
    let spawner = pool.spawner();

    let (mut ctx, mut handle) = Context::new();

    // CONNACK: session present = 0, reason = success, no properties.
    to_client.feed(&[0x20, 0x03, 0x00, 0x00, 0x00]);

    let (rx, tx) = (to_client.clone(), to_broker.clone());
    spawner
        .spawn_local(async move {
            ctx.set_up((rx, tx))
                .connect(ConnectOpts::new())
                .await
                .unwrap();
            let _ = ctx.run().await;
        })
        .unwrap();

    let done = Rc::new(RefCell::new(false));
    let done_flag = done.clone();
    spawner
        .spawn_local(async move {
            // Step 1: an operation is performed and completed on the original handle.
            let _subscription = handle
                .subscribe(SubscribeOpts::new().subscription("a/b", SubscriptionOpts::new()))
                .await
                .unwrap();

            // Step 2: only now the handle is cloned.
            let mut other = handle.clone();

            // Step 3: both handles have a QoS 1 PUBLISH in flight at the same time.
            let first = handle.publish(
                PublishOpts::new()
                    .topic_name("a/b")
                    .qos(QoS::AtLeastOnce)
                    .payload(b"first"),
            );
            let second = other.publish(
                PublishOpts::new()
                    .topic_name("a/b")
                    .qos(QoS::AtLeastOnce)
                    .payload(b"second"),
            );

            let (first, second) = futures::join!(first, second);
            first.unwrap();
            second.unwrap();
            *done_flag.borrow_mut() = true;
        })
        .unwrap();

    pool.run_until_stalled();

    let sent = to_broker.packets();
    assert_eq!(sent.len(), 2, "CONNECT and SUBSCRIBE expected, got {:?}", sent);
    assert_eq!(sent[0].0, 1);
    let (kind, subscribe_id) = sent[1];
    assert_eq!(kind, 8);
    assert_ne!(subscribe_id, 0);

    // SUBACK: identifier, no properties, granted QoS 0.
    let [hi, lo] = subscribe_id.to_be_bytes();
    to_client.feed(&[0x90, 0x04, hi, lo, 0x00, 0x00]);
    pool.run_until_stalled();

    // Neither PUBLISH is acknowledged yet: both are outstanding.
    let sent = to_broker.packets();
    assert_eq!(sent.len(), 2, "two PUBLISH packets expected, got {:?}", sent);
    assert!(sent.iter().all(|(kind, _)| *kind == 3));

    let (id_a, id_b) = (sent[0].1, sent[1].1);
    assert_ne!(id_a, 0, "packet identifier must not be zero");
    assert_ne!(id_b, 0, "packet identifier must not be zero");
    assert_ne!(
        id_a, id_b,
        "two PUBLISH packets outstanding at the same time carry the same packet identifier"
    );

    // PUBACK for both, the operations complete.
    for id in [id_a, id_b] {
        let [hi, lo] = id.to_be_bytes();
        to_client.feed(&[0x40, 0x02, hi, lo]);
    }
    pool.run_until_stalled();
    assert!(*done.borrow(), "both publish operations should have completed");
}
