//! C12 demonstration: a QoS 1 PUBLISH rejected for exceeding the server's Maximum Packet Size
//! must not leave a send-quota slot behind.
//!
//! The scripted broker announces Receive Maximum 1 and Maximum Packet Size 100. An oversized
//! QoS 1 publish has to fail with MaximumPacketSizeExceeded without writing anything, and a
//! following small QoS 1 publish has to go out on the wire and complete on its PUBACK.

use futures::{
    executor::block_on,
    future::{self, Either},
    AsyncRead, AsyncWrite,
};
use poster::{error::MqttError, ConnectOpts, Context, PublishOpts, QoS};
use std::{
    collections::VecDeque,
    io,
    pin::Pin,
    sync::{Arc, Mutex},
    task::{Context as TaskContext, Poll, Waker},
};

#[derive(Default)]
struct Wire {
    inbound: VecDeque<u8>, // broker -> client
    waker: Option<Waker>,
    outbound: Vec<u8>, // client -> broker
}

impl Wire {
    fn feed(&mut self, bytes: &[u8]) {
        self.inbound.extend(bytes.iter().copied());
        if let Some(waker) = self.waker.take() {
            waker.wake();
        }
    }
}

#[derive(Clone)]
struct Rx(Arc<Mutex<Wire>>);

#[derive(Clone)]
struct Tx(Arc<Mutex<Wire>>);

impl AsyncRead for Rx {
    fn poll_read(
        self: Pin<&mut Self>,
        cx: &mut TaskContext<'_>,
        buf: &mut [u8],
    ) -> Poll<io::Result<usize>> {
        let mut wire = self.0.lock().unwrap();
        if wire.inbound.is_empty() {
            wire.waker = Some(cx.waker().clone());
            return Poll::Pending;
        }

        let n = buf.len().min(wire.inbound.len());
        for slot in buf.iter_mut().take(n) {
            *slot = wire.inbound.pop_front().unwrap();
        }
        Poll::Ready(Ok(n))
    }
}

impl AsyncWrite for Tx {
    fn poll_write(
        self: Pin<&mut Self>,
        _cx: &mut TaskContext<'_>,
        buf: &[u8],
    ) -> Poll<io::Result<usize>> {
        let mut wire = self.0.lock().unwrap();
        wire.outbound.extend_from_slice(buf);

        // Scripted broker: every QoS 1 PUBLISH (short remaining length) is answered with PUBACK.
        if buf.len() > 4 && buf[0] >> 4 == 3 && (buf[0] >> 1) & 0x03 == 1 && buf[1] < 0x80 {
            let topic_len = u16::from_be_bytes([buf[2], buf[3]]) as usize;
            let id = [buf[4 + topic_len], buf[5 + topic_len]];
            wire.feed(&[0x40, 0x02, id[0], id[1]]);
        }

        Poll::Ready(Ok(buf.len()))
    }

    fn poll_flush(self: Pin<&mut Self>, _cx: &mut TaskContext<'_>) -> Poll<io::Result<()>> {
        Poll::Ready(Ok(()))
    }

    fn poll_close(self: Pin<&mut Self>, _cx: &mut TaskContext<'_>) -> Poll<io::Result<()>> {
        Poll::Ready(Ok(()))
    }
}

#[test]
fn oversized_qos1_publish_leaves_no_quota_slot_behind() {
    let wire = Arc::new(Mutex::new(Wire::default()));

    // CONNACK: success, Receive Maximum 1, Maximum Packet Size 100.
    wire.lock().unwrap().feed(&[
        0x20, 0x0b, 0x00, 0x00, 0x08, 0x21, 0x00, 0x01, 0x27, 0x00, 0x00, 0x00, 0x64,
    ]);

    let (mut ctx, handle) = Context::new();
    ctx.set_up((Rx(wire.clone()), Tx(wire.clone())));

    block_on(async {
        ctx.connect(ConnectOpts::new()).await.expect("connect");
        let after_connect = wire.lock().unwrap().outbound.len();

        let client_wire = wire.clone();
        let mut client_handle = handle.clone();
        let client = async move {
            // L > M: 200 bytes of payload cannot fit into 100 bytes.
            let big = [0x55u8; 200];
            let res = client_handle
                .publish(
                    PublishOpts::new()
                        .topic_name("a/b")
                        .qos(QoS::AtLeastOnce)
                        .payload(&big),
                )
                .await;
            assert!(
                matches!(res, Err(MqttError::MaximumPacketSizeExceeded(_))),
                "oversized publish must fail with MaximumPacketSizeExceeded, got {:?}",
                res
            );
            assert_eq!(
                client_wire.lock().unwrap().outbound.len(),
                after_connect,
                "not one byte of the oversized publish may be written"
            );

            // L <= M: the only quota slot must still be available.
            let res = client_handle
                .publish(
                    PublishOpts::new()
                        .topic_name("a/b")
                        .qos(QoS::AtLeastOnce)
                        .payload(b"hi"),
                )
                .await;
            assert!(
                res.is_ok(),
                "small QoS 1 publish after a rejected oversized one must succeed, got {:?}",
                res
            );

            let written = client_wire.lock().unwrap().outbound[after_connect..].to_vec();
            assert_eq!(written[0], 0x32, "QoS 1 PUBLISH written in full");
            assert_eq!(written.len(), 2 + written[1] as usize);
            assert!(written.ends_with(b"hi"));
        };

        let run = ctx.run();
        futures::pin_mut!(run);
        futures::pin_mut!(client);

        match future::select(run, client).await {
            Either::Left((res, _)) => panic!("run() ended before the client finished: {:?}", res),
            Either::Right(((), _)) => {}
        }
    });
}
