//! Demonstration for property C12 (the server's Maximum Packet Size is honoured exactly).
//!
//! A QoS 1 PUBLISH that is refused because it is larger than the Maximum Packet Size announced
//! in CONNACK must not leave a send-quota slot behind: with Receive Maximum = 1 the very next
//! (small) QoS 1 PUBLISH still has to be written in full and complete.

use futures::{executor::block_on, AsyncRead, AsyncWrite, FutureExt};
use poster::{error::MqttError, ConnectOpts, Context, PublishOpts, QoS};
use std::{
    cell::RefCell,
    collections::VecDeque,
    io,
    pin::Pin,
    rc::Rc,
    task::{Context as TaskContext, Poll, Waker},
};

#[derive(Default)]
struct Wire {
    /// Bytes travelling broker -> client.
    inbox: VecDeque<u8>,
    reader: Option<Waker>,
    /// Complete packets written by the client, in order.
    written: Vec<Vec<u8>>,
    /// Bytes of a packet not yet complete.
    partial: Vec<u8>,
}

impl Wire {
    fn feed(&mut self, bytes: &[u8]) {
        self.inbox.extend(bytes.iter().copied());
        if let Some(waker) = self.reader.take() {
            waker.wake();
        }
    }

    /// Splits `partial` into complete packets; every QoS 1 PUBLISH is answered with PUBACK.
    fn scan(&mut self) {
        loop {
            if self.partial.len() < 2 {
                return;
            }
            let (mut remaining, mut shift, mut idx) = (0usize, 0u32, 1usize);
            loop {
                if idx >= self.partial.len() {
                    return;
                }
                let byte = self.partial[idx];
                remaining |= ((byte & 0x7f) as usize) << shift;
                shift += 7;
                idx += 1;
                if byte & 0x80 == 0 {
                    break;
                }
            }
            let total = idx + remaining;
            if self.partial.len() < total {
                return;
            }
            let packet: Vec<u8> = self.partial.drain(..total).collect();
            if packet[0] >> 4 == 3 && (packet[0] >> 1) & 0x3 == 1 {
                let topic_len = u16::from_be_bytes([packet[idx], packet[idx + 1]]) as usize;
                let id = [packet[idx + 2 + topic_len], packet[idx + 3 + topic_len]];
                self.feed(&[0x40, 0x02, id[0], id[1]]);
            }
            self.written.push(packet);
        }
    }
}

struct Rx(Rc<RefCell<Wire>>);
struct Tx(Rc<RefCell<Wire>>);

impl AsyncRead for Rx {
    fn poll_read(
        self: Pin<&mut Self>,
        cx: &mut TaskContext<'_>,
        buf: &mut [u8],
    ) -> Poll<io::Result<usize>> {
        let mut wire = self.0.borrow_mut();
        if wire.inbox.is_empty() {
            wire.reader = Some(cx.waker().clone());
            return Poll::Pending;
        }
        let n = buf.len().min(wire.inbox.len());
        for slot in buf.iter_mut().take(n) {
            *slot = wire.inbox.pop_front().unwrap();
        }
        Poll::Ready(Ok(n))
    }
}

impl AsyncWrite for Tx {
    fn poll_write(
        self: Pin<&mut Self>,
        _: &mut TaskContext<'_>,
        buf: &[u8],
    ) -> Poll<io::Result<usize>> {
        let mut wire = self.0.borrow_mut();
        wire.partial.extend_from_slice(buf);
        wire.scan();
        Poll::Ready(Ok(buf.len()))
    }

    fn poll_flush(self: Pin<&mut Self>, _: &mut TaskContext<'_>) -> Poll<io::Result<()>> {
        Poll::Ready(Ok(()))
    }

    fn poll_close(self: Pin<&mut Self>, _: &mut TaskContext<'_>) -> Poll<io::Result<()>> {
        Poll::Ready(Ok(()))
    }
}

#[test]
fn refused_oversized_publish_leaves_no_quota_slot_behind() {
    const MAX_PACKET_SIZE: u8 = 20;

    let wire = Rc::new(RefCell::new(Wire::default()));

    // CONNACK, success, Receive Maximum = 1, Maximum Packet Size = 20.
    wire.borrow_mut().feed(&[
        0x20, 0x0b, 0x00, 0x00, 0x08, // fixed header, flags, reason, property length
        0x21, 0x00, 0x01, // Receive Maximum
        0x27, 0x00, 0x00, 0x00, MAX_PACKET_SIZE, // Maximum Packet Size
    ]);

    let (mut ctx, handle) = Context::new();
    ctx.set_up((Rx(wire.clone()), Tx(wire.clone())));

    block_on(async {
        let rsp = ctx.connect(ConnectOpts::new()).await.unwrap();
        let rsp = rsp.left().expect("CONNACK expected");
        assert_eq!(rsp.maximum_packet_size(), Some(MAX_PACKET_SIZE as u32));
        assert_eq!(wire.borrow().written.len(), 1, "CONNECT only");

        let client = {
            let wire = wire.clone();
            let mut handle = handle.clone();
            async move {
                // 1. L > M: refused, nothing written.
                let big = [0xabu8; 64];
                let refused = handle
                    .publish(
                        PublishOpts::new()
                            .qos(QoS::AtLeastOnce)
                            .topic_name("a")
                            .payload(&big),
                    )
                    .await;
                assert!(
                    matches!(refused, Err(MqttError::MaximumPacketSizeExceeded(_))),
                    "oversized publish: {:?}",
                    refused
                );
                assert_eq!(wire.borrow().written.len(), 1, "no byte of it is written");
                assert!(wire.borrow().partial.is_empty(), "no byte of it is written");

                // 2. L <= M: the only quota slot must still be available.
                let accepted = handle
                    .publish(
                        PublishOpts::new()
                            .qos(QoS::AtLeastOnce)
                            .topic_name("a")
                            .payload(b"ok"),
                    )
                    .await;
                assert!(
                    accepted.is_ok(),
                    "small publish after a refused oversized one: {:?}",
                    accepted
                );

                let wire = wire.borrow();
                assert_eq!(wire.written.len(), 2);
                let publish = &wire.written[1];
                assert!(publish.len() <= MAX_PACKET_SIZE as usize);
                assert_eq!(publish[0], 0x32);
                assert_eq!(&publish[publish.len() - 2..], b"ok");
            }
        };

        futures::select! {
            res = ctx.run().fuse() => panic!("run() ended early: {:?}", res),
            _ = client.fuse() => {}
        }
    });
}
