//! C12: the server's Maximum Packet Size is honoured exactly; when the server announced none,
//! every request is written in full. The limit which the *client* announces in CONNECT
//! (`ConnectOpts::maximum_packet_size`) bounds what the client is willing to receive and
//! has no bearing on what it may send.

use futures::{executor::block_on, pin_mut, select, AsyncRead, AsyncWrite, FutureExt};
use poster::{
    error::MqttError, ConnectOpts, Context, ContextHandle, DisconnectOpts, PublishOpts, QoS,
    SubscribeOpts, SubscriptionOpts,
};
use std::{
    collections::VecDeque,
    io,
    pin::Pin,
    sync::{Arc, Mutex},
    task::{Context as TaskContext, Poll, Waker},
};

#[derive(Default)]
struct Wire {
    inbound: VecDeque<u8>,
    waker: Option<Waker>,
    outbound: Vec<u8>,
}

#[derive(Clone, Default)]
struct Shared(Arc<Mutex<Wire>>);

impl Shared {
    fn feed(&self, bytes: &[u8]) {
        let mut wire = self.0.lock().unwrap();
        wire.inbound.extend(bytes.iter().copied());
        if let Some(waker) = wire.waker.take() {
            waker.wake();
        }
    }

    fn take_written(&self) -> Vec<u8> {
        std::mem::take(&mut self.0.lock().unwrap().outbound)
    }
}

struct Rx(Shared);
struct Tx(Shared);

impl AsyncRead for Rx {
    fn poll_read(
        self: Pin<&mut Self>,
        cx: &mut TaskContext<'_>,
        buf: &mut [u8],
    ) -> Poll<io::Result<usize>> {
        let mut wire = self.0 .0.lock().unwrap();
        if wire.inbound.is_empty() {
            wire.waker = Some(cx.waker().clone());
            return Poll::Pending;
        }
        let n = buf.len().min(wire.inbound.len());
        for slot in buf.iter_mut().take(n) {
            *slot = wire.inbound.pop_front().unwrap();
        }
        Poll::Ready(Ok(n))
    }
}

impl AsyncWrite for Tx {
    fn poll_write(
        self: Pin<&mut Self>,
        _: &mut TaskContext<'_>,
        buf: &[u8],
    ) -> Poll<io::Result<usize>> {
        self.0 .0.lock().unwrap().outbound.extend_from_slice(buf);
        Poll::Ready(Ok(buf.len()))
    }

    fn poll_flush(self: Pin<&mut Self>, _: &mut TaskContext<'_>) -> Poll<io::Result<()>> {
        Poll::Ready(Ok(()))
    }

    fn poll_close(self: Pin<&mut Self>, _: &mut TaskContext<'_>) -> Poll<io::Result<()>> {
        Poll::Ready(Ok(()))
    }
}

/// Connects with `opts`, the server answering with `connack`; the CONNECT bytes are discarded.
fn connected(opts: ConnectOpts<'_>, connack: &[u8]) -> (Context<Rx, Tx>, ContextHandle, Shared) {
    let wire = Shared::default();
    let (mut ctx, handle) = Context::new();
    ctx.set_up((Rx(wire.clone()), Tx(wire.clone())));

    wire.feed(connack);
    block_on(ctx.connect(opts)).expect("CONNACK is a success");
    wire.take_written();

    (ctx, handle, wire)
}

const CONNACK_PLAIN: [u8; 5] = [0x20, 0x03, 0x00, 0x00, 0x00];

fn connack_with_max(max: u32) -> Vec<u8> {
    let mut connack = vec![0x20, 0x08, 0x00, 0x00, 0x05, 0x27];
    connack.extend_from_slice(&max.to_be_bytes());
    connack
}

/// Runs the context until `op` completes; the context must outlive the operation.
macro_rules! serve {
    ($ctx:expr, $op:expr) => {
        block_on(async {
            let run = $ctx.run().fuse();
            let op = $op.fuse();
            pin_mut!(run, op);
            select! {
                res = op => res,
                res = run => panic!("context stopped before the operation completed: {:?}", res.map_err(|e| e.to_string())),
            }
        })
    };
}

const PAYLOAD: [u8; 100] = [0xAB; 100];

/// PUBLISH QoS 0, topic "t", no properties, 100 bytes of payload: 2 + 3 + 1 + 100 bytes.
const PUBLISH_LEN: usize = 106;

#[test]
fn no_server_limit_qos0_publish_is_written_in_full() {
    // The client accepts packets up to 32 bytes; the server announces no limit of its own.
    let (mut ctx, mut handle, wire) =
        connected(ConnectOpts::new().maximum_packet_size(32), &CONNACK_PLAIN);

    let res = serve!(
        ctx,
        handle.publish(PublishOpts::new().topic_name("t").payload(&PAYLOAD))
    );

    assert!(
        res.is_ok(),
        "no Maximum Packet Size was announced by the server, yet: {}",
        res.unwrap_err()
    );
    let written = wire.take_written();
    assert_eq!(written.len(), PUBLISH_LEN);
    assert_eq!(&written[..6], &[0x30, 104, 0x00, 0x01, b't', 0x00]);
    assert_eq!(&written[6..], &PAYLOAD[..]);
}

#[test]
fn no_server_limit_qos1_publish_is_written_in_full() {
    let (mut ctx, mut handle, wire) =
        connected(ConnectOpts::new().maximum_packet_size(32), &CONNACK_PLAIN);

    // The acknowledgement is fed once the PUBLISH is seen on the wire.
    let server = wire.clone();
    let res = serve!(ctx, async {
        let publish = handle
            .publish(
                PublishOpts::new()
                    .topic_name("t")
                    .qos(QoS::AtLeastOnce)
                    .payload(&PAYLOAD),
            )
            .fuse();
        pin_mut!(publish);
        let mut acked = false;
        futures::future::poll_fn(move |cx| {
            if !acked && !server.0.lock().unwrap().outbound.is_empty() {
                acked = true;
                server.feed(&[0x40, 0x02, 0x00, 0x01]);
            }
            match publish.poll_unpin(cx) {
                Poll::Ready(res) => Poll::Ready(res),
                Poll::Pending => {
                    if !acked {
                        cx.waker().wake_by_ref();
                    }
                    Poll::Pending
                }
            }
        })
        .await
    });

    assert!(
        res.is_ok(),
        "no Maximum Packet Size was announced by the server, yet: {}",
        res.unwrap_err()
    );
    assert_eq!(wire.take_written().len(), PUBLISH_LEN + 2);
}

#[test]
fn no_server_limit_subscribe_is_written_in_full() {
    let (mut ctx, mut handle, wire) =
        connected(ConnectOpts::new().maximum_packet_size(8), &CONNACK_PLAIN);

    let server = wire.clone();
    let res = serve!(ctx, async {
        let subscribe = handle
            .subscribe(
                SubscribeOpts::new().subscription("some/longer/topic/#", SubscriptionOpts::new()),
            )
            .fuse();
        pin_mut!(subscribe);
        let mut acked = false;
        futures::future::poll_fn(move |cx| {
            if !acked && !server.0.lock().unwrap().outbound.is_empty() {
                acked = true;
                server.feed(&[0x90, 0x04, 0x00, 0x01, 0x00, 0x00]);
            }
            match subscribe.poll_unpin(cx) {
                Poll::Ready(res) => Poll::Ready(res.map(|_| ())),
                Poll::Pending => {
                    if !acked {
                        cx.waker().wake_by_ref();
                    }
                    Poll::Pending
                }
            }
        })
        .await
    });

    assert!(
        res.is_ok(),
        "no Maximum Packet Size was announced by the server, yet: {}",
        res.unwrap_err()
    );
    let written = wire.take_written();
    assert_eq!(written[0], 0x82);
    assert_eq!(written.len(), 2 + written[1] as usize);
}

#[test]
fn no_server_limit_disconnect_is_written_in_full() {
    // A client which only ever expects tiny packets.
    let (mut ctx, mut handle, wire) =
        connected(ConnectOpts::new().maximum_packet_size(1), &CONNACK_PLAIN);

    // The context stops by itself once the DISCONNECT is written, before or after the
    // operation is seen to complete.
    let (run, res) = block_on(async {
        let run = ctx.run().fuse();
        let op = handle.disconnect(DisconnectOpts::new()).fuse();
        pin_mut!(run, op);
        let mut run_res = None;
        loop {
            select! {
                res = op => break (run_res, res),
                res = run => run_res = Some(res),
            }
        }
    });

    assert!(
        res.is_ok(),
        "no Maximum Packet Size was announced by the server, yet: {}",
        res.unwrap_err()
    );
    assert!(matches!(run, None | Some(Ok(()))));
    let written = wire.take_written();
    assert_eq!(written[0], 0xE0);
    assert_eq!(written.len(), 2 + written[1] as usize);
}

/// Control: the limit announced by the server is the one that counts, whatever the client announced.
#[test]
fn server_limit_is_exact() {
    for (max, fits) in [
        (PUBLISH_LEN as u32 - 1, false),
        (PUBLISH_LEN as u32, true),
        (PUBLISH_LEN as u32 + 1, true),
    ] {
        let (mut ctx, mut handle, wire) = connected(
            ConnectOpts::new().maximum_packet_size(32),
            &connack_with_max(max),
        );

        let res = serve!(
            ctx,
            handle.publish(PublishOpts::new().topic_name("t").payload(&PAYLOAD))
        );

        if fits {
            assert!(res.is_ok());
            assert_eq!(wire.take_written().len(), PUBLISH_LEN);
        } else {
            assert!(matches!(res, Err(MqttError::MaximumPacketSizeExceeded(_))));
            assert!(wire.take_written().is_empty());
        }
    }
}
