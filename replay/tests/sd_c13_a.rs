//! Demonstration for property C13: `run()` may only return `Ok(())` for a user-initiated
//! disconnection once the user's DISCONNECT packet has actually been written to the transport.
//!
//! Scenario: the broker's CONNACK advertises a small Maximum Packet Size (20 bytes). The user then
//! asks for a disconnection with a long reason string; the resulting DISCONNECT packet exceeds
//! the broker's limit, so the library refuses to send it (`MaximumPacketSizeExceeded`) and nothing
//! is written. The connection is still alive, hence `run()` must keep serving it.

use futures::{
    executor::block_on,
    future::{self, Either as FutEither},
    AsyncRead, AsyncWrite,
};
use poster::{error::MqttError, ConnectOpts, Context, DisconnectOpts};
use std::{
    collections::VecDeque,
    io,
    pin::Pin,
    sync::{Arc, Mutex},
    task::{Context as TaskContext, Poll},
};

/// Read half: hands out the scripted chunks one by one, then stays pending forever
/// (the broker keeps the connection open and silent).
struct ScriptedRx {
    chunks: VecDeque<Vec<u8>>,
}

impl AsyncRead for ScriptedRx {
    fn poll_read(
        mut self: Pin<&mut Self>,
        _cx: &mut TaskContext<'_>,
        buf: &mut [u8],
    ) -> Poll<io::Result<usize>> {
        match self.chunks.pop_front() {
            Some(chunk) => {
                assert!(chunk.len() <= buf.len());
                buf[..chunk.len()].copy_from_slice(&chunk);
                Poll::Ready(Ok(chunk.len()))
            }
            None => Poll::Pending,
        }
    }
}

/// Write half: records every `poll_write` call as one entry.
#[derive(Clone)]
struct RecordingTx {
    writes: Arc<Mutex<Vec<Vec<u8>>>>,
}

impl AsyncWrite for RecordingTx {
    fn poll_write(
        self: Pin<&mut Self>,
        _cx: &mut TaskContext<'_>,
        buf: &[u8],
    ) -> Poll<io::Result<usize>> {
        self.writes.lock().unwrap().push(buf.to_vec());
        Poll::Ready(Ok(buf.len()))
    }

    fn poll_flush(self: Pin<&mut Self>, _cx: &mut TaskContext<'_>) -> Poll<io::Result<()>> {
        Poll::Ready(Ok(()))
    }

    fn poll_close(self: Pin<&mut Self>, _cx: &mut TaskContext<'_>) -> Poll<io::Result<()>> {
        Poll::Ready(Ok(()))
    }
}

// CONNACK, reason 0 (success), properties: Maximum Packet Size (0x27) = 20.
const CONNACK_MAX_PACKET_SIZE_20: [u8; 10] =
    [0x20, 0x08, 0x00, 0x00, 0x05, 0x27, 0x00, 0x00, 0x00, 0x14];

const LONG_REASON: &str = "client is going away for scheduled maintenance";

fn disconnect_packets(writes: &[Vec<u8>]) -> Vec<Vec<u8>> {
    writes
        .iter()
        .filter(|w| w.first().map(|hdr| hdr >> 4) == Some(14))
        .cloned()
        .collect()
}

/// After the oversized DISCONNECT has been refused, a second (small) DISCONNECT is requested.
/// `run()` has to end with `Ok(())` exactly when that second packet has been written.
#[test]
fn run_keeps_serving_after_refused_oversized_disconnect() {
    let writes = Arc::new(Mutex::new(Vec::new()));
    let rx = ScriptedRx {
        chunks: VecDeque::from([CONNACK_MAX_PACKET_SIZE_20.to_vec()]),
    };
    let tx = RecordingTx {
        writes: writes.clone(),
    };

    let (mut ctx, mut handle) = Context::new();
    ctx.set_up((rx, tx));

    block_on(async {
        let rsp = ctx.connect(ConnectOpts::new()).await.unwrap();
        assert_eq!(rsp.left().unwrap().maximum_packet_size(), Some(20));

        let user = async {
            let refused = handle
                .disconnect(DisconnectOpts::new().reason_string(LONG_REASON))
                .await;
            assert!(
                matches!(refused, Err(MqttError::MaximumPacketSizeExceeded(_))),
                "oversized DISCONNECT must be refused, got {:?}",
                refused
            );
            assert!(
                disconnect_packets(&writes.lock().unwrap()).is_empty(),
                "refused DISCONNECT must not reach the transport"
            );

            // The connection is still up, so a DISCONNECT that fits must go through.
            handle.disconnect(DisconnectOpts::new()).await
        };

        let run = ctx.run();
        futures::pin_mut!(run, user);

        // `run()` finishes right after writing the DISCONNECT, before the user task is polled again.
        let run_result = match future::select(run, user).await {
            FutEither::Left((run_result, _user)) => run_result,
            FutEither::Right((user_result, run)) => {
                user_result.unwrap();
                run.await
            }
        };

        assert!(run_result.is_ok(), "unexpected run() result {:?}", run_result);

        // run() returned Ok(()): the user's DISCONNECT must be the last thing on the wire.
        let written = writes.lock().unwrap().clone();
        assert_eq!(
            disconnect_packets(&written),
            vec![vec![0xe0, 0x02, 0x00, 0x00]],
            "run() returned Ok(()) although no DISCONNECT has been written; writes: {:x?}",
            written
        );
        assert_eq!(written.last().unwrap(), &vec![0xe0, 0x02, 0x00, 0x00]);
    });
}

/// Same start, but after the refusal every handle is dropped: none of the graceful outcomes has
/// happened, so `run()` has to end with `HandleClosed`, not with `Ok(())`.
#[test]
fn refused_oversized_disconnect_is_not_a_graceful_disconnection() {
    let writes = Arc::new(Mutex::new(Vec::new()));
    let rx = ScriptedRx {
        chunks: VecDeque::from([CONNACK_MAX_PACKET_SIZE_20.to_vec()]),
    };
    let tx = RecordingTx {
        writes: writes.clone(),
    };

    let (mut ctx, handle) = Context::new();
    ctx.set_up((rx, tx));

    block_on(async {
        ctx.connect(ConnectOpts::new()).await.unwrap();

        let user = async move {
            let mut handle = handle;
            let refused = handle
                .disconnect(DisconnectOpts::new().reason_string(LONG_REASON))
                .await;
            assert!(matches!(
                refused,
                Err(MqttError::MaximumPacketSizeExceeded(_))
            ));
            // `handle` (the only one) is dropped here.
        };

        let (run_result, ()) = future::join(ctx.run(), user).await;

        assert!(disconnect_packets(&writes.lock().unwrap()).is_empty());
        assert!(
            matches!(run_result, Err(MqttError::HandleClosed(_))),
            "nothing was written and no DISCONNECT arrived, yet run() returned {:?}",
            run_result
        );
    });
}
