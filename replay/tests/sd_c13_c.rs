//! C13 demonstration: a transport error that hits while a packet nobody acknowledges
//! (the user's DISCONNECT, a QoS 0 PUBLISH) is being written must end `run()` with
//! `SocketClosed`; `run()` must not report a graceful end for a DISCONNECT that never
//! reached the socket, and must not keep serving a dead transport.

use futures::{executor::block_on, future, AsyncRead, AsyncWrite};
use poster::{error::MqttError, ConnectOpts, Context, DisconnectOpts, PublishOpts};
use std::{
    io,
    pin::Pin,
    sync::{
        atomic::{AtomicBool, Ordering},
        Arc, Mutex,
    },
    task::{self, Poll},
};

/// Read half: hands out the scripted bytes, then stays silent (the peer says nothing more).
struct ScriptedRx {
    data: Vec<u8>,
    pos: usize,
}

impl AsyncRead for ScriptedRx {
    fn poll_read(
        mut self: Pin<&mut Self>,
        _cx: &mut task::Context<'_>,
        buf: &mut [u8],
    ) -> Poll<io::Result<usize>> {
        if self.pos == self.data.len() {
            return Poll::Pending;
        }

        let len = buf.len().min(self.data.len() - self.pos);
        let pos = self.pos;
        buf[..len].copy_from_slice(&self.data[pos..pos + len]);
        self.pos += len;
        Poll::Ready(Ok(len))
    }
}

/// Write half: records what is written, until `broken` is raised; from then on every write fails.
struct FaultyTx {
    written: Arc<Mutex<Vec<u8>>>,
    broken: Arc<AtomicBool>,
}

impl AsyncWrite for FaultyTx {
    fn poll_write(
        self: Pin<&mut Self>,
        _cx: &mut task::Context<'_>,
        buf: &[u8],
    ) -> Poll<io::Result<usize>> {
        if self.broken.load(Ordering::SeqCst) {
            return Poll::Ready(Err(io::ErrorKind::BrokenPipe.into()));
        }

        self.written.lock().unwrap().extend_from_slice(buf);
        Poll::Ready(Ok(buf.len()))
    }

    fn poll_flush(self: Pin<&mut Self>, _cx: &mut task::Context<'_>) -> Poll<io::Result<()>> {
        Poll::Ready(Ok(()))
    }

    fn poll_close(self: Pin<&mut Self>, _cx: &mut task::Context<'_>) -> Poll<io::Result<()>> {
        Poll::Ready(Ok(()))
    }
}

const CONNACK_OK: [u8; 5] = [0x20, 0x03, 0x00, 0x00, 0x00];

fn transport() -> (ScriptedRx, FaultyTx, Arc<Mutex<Vec<u8>>>, Arc<AtomicBool>) {
    let written = Arc::new(Mutex::new(Vec::new()));
    let broken = Arc::new(AtomicBool::new(false));

    (
        ScriptedRx {
            data: CONNACK_OK.to_vec(),
            pos: 0,
        },
        FaultyTx {
            written: written.clone(),
            broken: broken.clone(),
        },
        written,
        broken,
    )
}

/// The user's DISCONNECT cannot be written: run() ends with SocketClosed, not with Ok(()).
#[test]
fn disconnect_lost_on_broken_transport_is_not_graceful() {
    let (rx, tx, written, broken) = transport();
    let (mut ctx, mut handle) = Context::new();
    ctx.set_up((rx, tx));

    block_on(async {
        ctx.connect(ConnectOpts::new()).await.unwrap();
        let connect_len = written.lock().unwrap().len();

        // The transport breaks after the connection has been established.
        broken.store(true, Ordering::SeqCst);

        let (run_result, disconnect_result) = future::join(ctx.run(), async move {
            handle.disconnect(DisconnectOpts::new()).await
        })
        .await;

        // Nothing has been written after CONNECT, in particular no DISCONNECT.
        assert_eq!(written.lock().unwrap().len(), connect_len);
        assert!(disconnect_result.is_err());

        assert!(
            matches!(run_result, Err(MqttError::SocketClosed(_))),
            "run() must end with SocketClosed when the DISCONNECT could not be written, got {:?}",
            run_result
        );
    });
}

/// A QoS 0 PUBLISH cannot be written: run() ends with SocketClosed right away,
/// it does not keep running until the handles are gone.
#[test]
fn publish_lost_on_broken_transport_ends_run_with_socket_closed() {
    let (rx, tx, written, broken) = transport();
    let (mut ctx, mut handle) = Context::new();
    ctx.set_up((rx, tx));

    block_on(async {
        ctx.connect(ConnectOpts::new()).await.unwrap();
        let connect_len = written.lock().unwrap().len();

        broken.store(true, Ordering::SeqCst);

        let (run_result, publish_result) = future::join(ctx.run(), async move {
            // `handle` is the only handle, it is dropped when this block is left.
            handle
                .publish(PublishOpts::new().topic_name("a/b").payload(b"x"))
                .await
        })
        .await;

        assert_eq!(written.lock().unwrap().len(), connect_len);
        assert!(publish_result.is_err());

        assert!(
            matches!(run_result, Err(MqttError::SocketClosed(_))),
            "run() must end with SocketClosed on a transport error, got {:?}",
            run_result
        );
    });
}
