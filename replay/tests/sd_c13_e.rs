//! Demonstration for property C13: `authorize()` must report `SocketClosed` when the transport
//! ends before the broker answers the AUTH packet.
//!
//! Scenario (extended authentication, multi-step):
//!   1. client sends CONNECT with an authentication method/data,
//!   2. broker answers with an AUTH challenge (reason 0x18, Continue authentication),
//!   3. client answers with `authorize()`,
//!   4. broker drops the connection without sending anything (typical reaction to bad credentials).
//!
//! The handle is alive for the whole test, so `HandleClosed` can never be the right outcome.

use std::{
    collections::VecDeque,
    io,
    pin::Pin,
    sync::{Arc, Mutex},
    task::{Context as TaskContext, Poll},
};

use futures::{executor::block_on, AsyncRead, AsyncWrite};
use poster::{
    error::MqttError, prelude::Either, reason::AuthReason, AuthOpts, ConnectOpts, Context,
};

/// Read half: hands out the scripted chunks one per read, then reports end-of-stream.
struct ScriptedRx {
    chunks: VecDeque<Vec<u8>>,
}

impl AsyncRead for ScriptedRx {
    fn poll_read(
        mut self: Pin<&mut Self>,
        _cx: &mut TaskContext<'_>,
        buf: &mut [u8],
    ) -> Poll<io::Result<usize>> {
        match self.chunks.pop_front() {
            Some(chunk) => {
                assert!(chunk.len() <= buf.len());
                buf[..chunk.len()].copy_from_slice(&chunk);
                Poll::Ready(Ok(chunk.len()))
            }
            None => Poll::Ready(Ok(0)), // EOF
        }
    }
}

/// Write half: records everything the client writes.
#[derive(Clone, Default)]
struct RecordingTx {
    written: Arc<Mutex<Vec<u8>>>,
}

impl AsyncWrite for RecordingTx {
    fn poll_write(
        self: Pin<&mut Self>,
        _cx: &mut TaskContext<'_>,
        buf: &[u8],
    ) -> Poll<io::Result<usize>> {
        self.written.lock().unwrap().extend_from_slice(buf);
        Poll::Ready(Ok(buf.len()))
    }

    fn poll_flush(self: Pin<&mut Self>, _cx: &mut TaskContext<'_>) -> Poll<io::Result<()>> {
        Poll::Ready(Ok(()))
    }

    fn poll_close(self: Pin<&mut Self>, _cx: &mut TaskContext<'_>) -> Poll<io::Result<()>> {
        Poll::Ready(Ok(()))
    }
}

/// AUTH, reason 0x18 (Continue authentication), Authentication Method = "TEST".
const AUTH_CHALLENGE: [u8; 11] = [
    0xF0, 0x09, // fixed header, remaining length
    0x18, // reason
    0x07, // property length
    0x15, 0x00, 0x04, b'T', b'E', b'S', b'T',
];

/// CONNACK, reason 0x87 (Not authorized), no properties.
const CONNACK_NOT_AUTHORIZED: [u8; 5] = [0x20, 0x03, 0x00, 0x87, 0x00];

fn connect_opts<'a>() -> ConnectOpts<'a> {
    ConnectOpts::new()
        .client_identifier("seed-demo")
        .authentication_method("TEST")
        .authentication_data(b"hello")
}

fn auth_opts<'a>() -> AuthOpts<'a> {
    AuthOpts::new()
        .reason(AuthReason::ContinueAuthentication)
        .authentication_method("TEST")
        .authentication_data(b"response")
}

#[test]
fn authorize_reports_socket_closed_when_transport_ends_first() {
    let tx = RecordingTx::default();
    let rx = ScriptedRx {
        chunks: VecDeque::from([AUTH_CHALLENGE.to_vec()]),
    };

    let (mut ctx, _handle) = Context::new();
    ctx.set_up((rx, tx.clone()));

    block_on(async {
        // Step 1-2: CONNECT is answered by an AUTH challenge.
        match ctx.connect(connect_opts()).await {
            Ok(Either::Right(challenge)) => {
                assert_eq!(challenge.reason(), AuthReason::ContinueAuthentication);
                assert_eq!(challenge.authentication_method(), Some("TEST"));
            }
            Ok(Either::Left(_)) => panic!("expected AuthRsp, got ConnectRsp"),
            Err(err) => panic!("expected AuthRsp, got error: {err:?}"),
        }

        let written_before = tx.written.lock().unwrap().len();

        // Step 3-4: the AUTH answer is written, then the broker hangs up.
        let outcome = ctx.authorize(auth_opts()).await;

        let written_after = tx.written.lock().unwrap().len();
        assert!(
            written_after > written_before,
            "authorize() must have written its AUTH packet"
        );
        assert_eq!(
            tx.written.lock().unwrap()[written_before] >> 4,
            15,
            "the packet written by authorize() must be AUTH"
        );

        match outcome {
            Err(MqttError::SocketClosed(_)) => {}
            Err(other) => panic!(
                "transport ended before the broker answered: expected SocketClosed, got {other:?}"
            ),
            Ok(_) => panic!("transport ended before the broker answered: expected SocketClosed"),
        }
    });

    // `_handle` is still alive here.
}

/// Control: the other documented outcome of authorize() is unaffected (a refusing CONNACK
/// is reported as ConnectError carrying the broker's reason).
#[test]
fn authorize_reports_connect_error_for_refusing_connack() {
    let tx = RecordingTx::default();
    let rx = ScriptedRx {
        chunks: VecDeque::from([AUTH_CHALLENGE.to_vec(), CONNACK_NOT_AUTHORIZED.to_vec()]),
    };

    let (mut ctx, _handle) = Context::new();
    ctx.set_up((rx, tx));

    block_on(async {
        assert!(matches!(
            ctx.connect(connect_opts()).await,
            Ok(Either::Right(_))
        ));

        match ctx.authorize(auth_opts()).await {
            Err(MqttError::ConnectError(err)) => {
                assert_eq!(err.reason() as u8, 0x87);
            }
            Err(other) => panic!("expected ConnectError, got {other:?}"),
            Ok(_) => panic!("expected ConnectError, got a response"),
        }
    });
}
