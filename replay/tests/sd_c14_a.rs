//! C14 demonstration: an operation that is still queued (never written) when the
//! context goes away must complete with `ContextExited`.
//!
//! Two handles ask for disconnection before the context gets to serve either request.
//! The context writes the first DISCONNECT and `run()` returns; the second request is
//! still sitting in the message queue when the context is dropped.

use futures::{executor::block_on, future::BoxFuture, AsyncRead, AsyncWrite, FutureExt};
use poster::{error::MqttError, ConnectOpts, Context, ContextHandle, DisconnectOpts};
use std::{
    collections::VecDeque,
    io,
    pin::Pin,
    sync::{Arc, Mutex},
    task::{Context as TaskContext, Poll},
};

/// Read half: hands out the scripted bytes, then stays silent (never EOF).
struct ScriptedRx {
    data: VecDeque<u8>,
}

impl AsyncRead for ScriptedRx {
    fn poll_read(
        mut self: Pin<&mut Self>,
        _cx: &mut TaskContext<'_>,
        buf: &mut [u8],
    ) -> Poll<io::Result<usize>> {
        if self.data.is_empty() {
            return Poll::Pending;
        }

        let n = buf.len().min(self.data.len());
        for slot in buf.iter_mut().take(n) {
            *slot = self.data.pop_front().unwrap();
        }
        Poll::Ready(Ok(n))
    }
}

/// Write half: records everything that was written.
#[derive(Clone)]
struct RecordingTx {
    written: Arc<Mutex<Vec<u8>>>,
}

impl AsyncWrite for RecordingTx {
    fn poll_write(
        self: Pin<&mut Self>,
        _cx: &mut TaskContext<'_>,
        buf: &[u8],
    ) -> Poll<io::Result<usize>> {
        self.written.lock().unwrap().extend_from_slice(buf);
        Poll::Ready(Ok(buf.len()))
    }

    fn poll_flush(self: Pin<&mut Self>, _cx: &mut TaskContext<'_>) -> Poll<io::Result<()>> {
        Poll::Ready(Ok(()))
    }

    fn poll_close(self: Pin<&mut Self>, _cx: &mut TaskContext<'_>) -> Poll<io::Result<()>> {
        Poll::Ready(Ok(()))
    }
}

const CONNACK_OK: [u8; 5] = [0x20, 0x03, 0x00, 0x00, 0x00];

fn connected() -> (
    Context<ScriptedRx, RecordingTx>,
    ContextHandle,
    Arc<Mutex<Vec<u8>>>,
) {
    let written = Arc::new(Mutex::new(Vec::new()));
    let rx = ScriptedRx {
        data: CONNACK_OK.iter().copied().collect(),
    };
    let tx = RecordingTx {
        written: written.clone(),
    };

    let (mut ctx, handle) = Context::new();
    ctx.set_up((rx, tx));
    block_on(ctx.connect(ConnectOpts::new()))
        .map(|_| ())
        .expect("CONNACK with reason 0 is accepted");

    written.lock().unwrap().clear(); // forget the CONNECT packet
    (ctx, handle, written)
}

fn disconnect_op(mut handle: ContextHandle) -> BoxFuture<'static, Result<(), MqttError>> {
    async move { handle.disconnect(DisconnectOpts::new()).await }.boxed()
}

/// Polls `fut` once; it is expected to enqueue its request and stay pending.
fn start<T>(fut: &mut BoxFuture<'static, T>) {
    let started = block_on(async { futures::poll!(&mut *fut) });
    assert!(started.is_pending(), "request waits for the context");
}

#[test]
fn disconnect_still_queued_when_context_is_dropped_gets_context_exited() {
    let (mut ctx, handle, written) = connected();

    let mut first = disconnect_op(handle.clone());
    let mut second = disconnect_op(handle.clone());
    start(&mut first);
    start(&mut second);

    // Serves the first request only: nothing may follow a DISCONNECT.
    block_on(ctx.run()).expect("graceful disconnection");
    {
        let written = written.lock().unwrap();
        assert_eq!(written[0], 0xE0, "a DISCONNECT has been written");
        assert_eq!(
            written.len(),
            2 + written[1] as usize,
            "exactly one DISCONNECT has been written"
        );
    }

    drop(ctx);

    assert!(
        matches!(block_on(first), Ok(())),
        "the request that was written succeeds"
    );

    let second = block_on(second);
    assert!(
        matches!(second, Err(MqttError::ContextExited(_))),
        "a request that was never written must fail with ContextExited, got {:?}",
        second.map_err(|err| err.to_string())
    );
}

#[test]
fn operations_after_the_context_is_gone_get_context_exited() {
    let (mut ctx, handle, _written) = connected();

    let mut first = disconnect_op(handle.clone());
    start(&mut first);
    block_on(ctx.run()).expect("graceful disconnection");
    drop(ctx);
    assert!(matches!(block_on(first), Ok(())));

    let mut late = handle.clone();
    assert!(matches!(
        block_on(late.ping()),
        Err(MqttError::ContextExited(_))
    ));
    assert!(matches!(
        block_on(late.disconnect(DisconnectOpts::new())),
        Err(MqttError::ContextExited(_))
    ));
}
