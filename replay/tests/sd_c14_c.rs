//! C14 demonstration: a QoS 2 publish whose PUBREC has been received, but whose PUBREL has not
//! yet been queued when the context goes away, must complete with `ContextExited`.
//!
//! The scripted broker answers CONNECT with CONNACK, and a QoS 2 PUBLISH with PUBREC followed by
//! closing the socket. `run()` therefore hands the PUBREC to the publishing task and then fails
//! with `SocketClosed`; the context is dropped before the publishing task gets to run again.

use futures::{executor::block_on, poll, AsyncRead, AsyncWrite};
use poster::{error::MqttError, ConnectOpts, Context, PublishOpts, QoS};
use std::{
    cell::RefCell,
    collections::VecDeque,
    io,
    pin::Pin,
    rc::Rc,
    task::{Context as TaskContext, Poll, Waker},
};

#[derive(Default)]
struct Wire {
    /// Bytes the broker has sent and the client has not read yet.
    inbound: VecDeque<u8>,
    /// The broker has closed the socket (seen by the client once `inbound` is drained).
    closed: bool,
    /// Packets written by the client, one entry per write.
    written: Vec<Vec<u8>>,
    reader: Option<Waker>,
}

struct Rx(Rc<RefCell<Wire>>);
struct Tx(Rc<RefCell<Wire>>);

impl AsyncRead for Rx {
    fn poll_read(
        self: Pin<&mut Self>,
        cx: &mut TaskContext<'_>,
        buf: &mut [u8],
    ) -> Poll<io::Result<usize>> {
        let mut wire = self.0.borrow_mut();
        if wire.inbound.is_empty() {
            if wire.closed {
                return Poll::Ready(Ok(0));
            }
            wire.reader = Some(cx.waker().clone());
            return Poll::Pending;
        }

        let n = buf.len().min(wire.inbound.len());
        for slot in buf.iter_mut().take(n) {
            *slot = wire.inbound.pop_front().unwrap();
        }
        Poll::Ready(Ok(n))
    }
}

impl AsyncWrite for Tx {
    fn poll_write(
        self: Pin<&mut Self>,
        _: &mut TaskContext<'_>,
        buf: &[u8],
    ) -> Poll<io::Result<usize>> {
        let mut wire = self.0.borrow_mut();
        wire.written.push(buf.to_vec());

        match buf[0] >> 4 {
            // CONNECT -> CONNACK, success, no properties.
            1 => wire.inbound.extend([0x20, 0x03, 0x00, 0x00, 0x00]),
            // PUBLISH (QoS 2, packet identifier 1) -> PUBREC, then the broker goes away.
            3 => {
                wire.inbound.extend([0x50, 0x02, 0x00, 0x01]);
                wire.closed = true;
            }
            _ => {}
        }

        if let Some(waker) = wire.reader.take() {
            waker.wake();
        }
        Poll::Ready(Ok(buf.len()))
    }

    fn poll_flush(self: Pin<&mut Self>, _: &mut TaskContext<'_>) -> Poll<io::Result<()>> {
        Poll::Ready(Ok(()))
    }

    fn poll_close(self: Pin<&mut Self>, _: &mut TaskContext<'_>) -> Poll<io::Result<()>> {
        Poll::Ready(Ok(()))
    }
}

#[test]
fn qos2_publish_between_phases_completes_when_context_is_gone() {
    block_on(async {
        let wire = Rc::new(RefCell::new(Wire::default()));

        let (mut ctx, mut handle) = Context::new();
        ctx.set_up((Rx(wire.clone()), Tx(wire.clone())));
        ctx.connect(ConnectOpts::new()).await.unwrap();

        let opts = PublishOpts::new()
            .topic_name("topic")
            .payload(b"payload")
            .qos(QoS::ExactlyOnce);
        let mut publish = Box::pin(handle.publish(opts));

        // First phase: the PUBLISH is queued and the operation waits for the PUBREC.
        assert!(poll!(&mut publish).is_pending());

        // The context writes the PUBLISH, receives the PUBREC, passes it to the operation
        // and then finds the socket closed.
        let result = ctx.run().await;
        assert!(matches!(result, Err(MqttError::SocketClosed(_))));
        drop(ctx);

        {
            let wire = wire.borrow();
            assert_eq!(wire.written.len(), 2, "CONNECT and PUBLISH only");
            assert_eq!(wire.written[1][0] >> 4, 3);
        }

        // Second phase: the operation resumes with the PUBREC, but there is no context
        // left to take the PUBREL. Nothing can wake the operation any more, so it has to
        // be complete by now.
        for _ in 0..3 {
            match poll!(&mut publish) {
                Poll::Ready(Err(MqttError::ContextExited(_))) => return,
                Poll::Ready(other) => panic!("expected ContextExited, got {:?}", other.map_err(|e| e.to_string())),
                Poll::Pending => {}
            }
        }

        panic!("QoS 2 publish is still pending after the context has been dropped");
    });
}
