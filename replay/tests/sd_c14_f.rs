//! C14 demonstration: a subscription stream must hand out everything it had received and then
//! end once the context is gone. The broker is played by hand-made MQTT 5 bytes over an in-memory pipe.

use futures::{
    executor::LocalPool,
    io::{AsyncRead, AsyncWrite},
    task::LocalSpawnExt,
    StreamExt,
};
use poster::{ConnectOpts, Context, SubscribeOpts, SubscriptionOpts};
use std::{
    cell::{Cell, RefCell},
    collections::VecDeque,
    io,
    pin::Pin,
    rc::Rc,
    task::{Context as TaskContext, Poll, Waker},
};

#[derive(Default)]
struct PipeState {
    data: VecDeque<u8>,
    closed: bool,
    waker: Option<Waker>,
}

/// Broker -> client direction.
#[derive(Clone, Default)]
struct Pipe(Rc<RefCell<PipeState>>);

impl Pipe {
    fn feed(&self, bytes: &[u8]) {
        let mut state = self.0.borrow_mut();
        state.data.extend(bytes.iter().copied());
        if let Some(waker) = state.waker.take() {
            waker.wake();
        }
    }

    fn close(&self) {
        let mut state = self.0.borrow_mut();
        state.closed = true;
        if let Some(waker) = state.waker.take() {
            waker.wake();
        }
    }
}

impl AsyncRead for Pipe {
    fn poll_read(
        self: Pin<&mut Self>,
        cx: &mut TaskContext<'_>,
        buf: &mut [u8],
    ) -> Poll<io::Result<usize>> {
        let mut state = self.0.borrow_mut();
        if state.data.is_empty() {
            if state.closed {
                return Poll::Ready(Ok(0));
            }
            state.waker = Some(cx.waker().clone());
            return Poll::Pending;
        }

        let n = buf.len().min(state.data.len());
        for slot in buf.iter_mut().take(n) {
            *slot = state.data.pop_front().unwrap();
        }
        Poll::Ready(Ok(n))
    }
}

/// Client -> broker direction, everything written is recorded.
#[derive(Clone, Default)]
struct Sink(Rc<RefCell<Vec<u8>>>);

impl AsyncWrite for Sink {
    fn poll_write(
        self: Pin<&mut Self>,
        _: &mut TaskContext<'_>,
        buf: &[u8],
    ) -> Poll<io::Result<usize>> {
        self.0.borrow_mut().extend_from_slice(buf);
        Poll::Ready(Ok(buf.len()))
    }

    fn poll_flush(self: Pin<&mut Self>, _: &mut TaskContext<'_>) -> Poll<io::Result<()>> {
        Poll::Ready(Ok(()))
    }

    fn poll_close(self: Pin<&mut Self>, _: &mut TaskContext<'_>) -> Poll<io::Result<()>> {
        Poll::Ready(Ok(()))
    }
}

const CONNACK: [u8; 5] = [0x20, 0x03, 0x00, 0x00, 0x00];
// Packet identifier 1, no properties, granted QoS 0.
const SUBACK: [u8; 6] = [0x90, 0x04, 0x00, 0x01, 0x00, 0x00];

/// QoS 0 PUBLISH on topic "t" carrying subscription identifier 1 and a one byte payload.
fn publish(payload: u8) -> [u8; 9] {
    [0x30, 0x07, 0x00, 0x01, b't', 0x02, 0x0b, 0x01, payload]
}

fn backlog_then_teardown(buffered: u8) {
    let mut pool = LocalPool::new();
    let spawner = pool.spawner();

    let to_client = Pipe::default();
    let from_client = Sink::default();

    let (mut ctx, handle) = Context::new();

    to_client.feed(&CONNACK);

    let ctx_gone = Rc::new(Cell::new(false));
    {
        let ctx_gone = ctx_gone.clone();
        let (rx, tx) = (to_client.clone(), from_client.clone());
        spawner
            .spawn_local(async move {
                ctx.set_up((rx, tx))
                    .connect(ConnectOpts::new())
                    .await
                    .unwrap();
                let _ = ctx.run().await;
                drop(ctx);
                ctx_gone.set(true);
            })
            .unwrap();
    }

    let stream = Rc::new(RefCell::new(None));
    {
        let stream = stream.clone();
        let mut handle = handle.clone();
        spawner
            .spawn_local(async move {
                let rsp = handle
                    .subscribe(SubscribeOpts::new().subscription("t", SubscriptionOpts::new()))
                    .await
                    .unwrap();
                *stream.borrow_mut() = Some(rsp.stream());
            })
            .unwrap();
    }

    pool.run_until_stalled();
    assert_eq!(from_client.0.borrow().iter().filter(|b| **b == 0x82).count(), 1);

    // The broker grants the subscription and delivers the messages, then the connection goes away.
    to_client.feed(&SUBACK);
    for i in 0..buffered {
        to_client.feed(&publish(i));
    }
    pool.run_until_stalled();
    assert!(stream.borrow().is_some(), "subscribe has completed");

    to_client.close();
    pool.run_until_stalled();
    assert!(ctx_gone.get(), "run() returned and the context was dropped");

    // Only now the application gets round to reading its stream.
    let received = Rc::new(RefCell::new(Vec::new()));
    let ended = Rc::new(Cell::new(false));
    {
        let (received, ended) = (received.clone(), ended.clone());
        let mut stream = stream.borrow_mut().take().unwrap();
        spawner
            .spawn_local(async move {
                while let Some(msg) = stream.next().await {
                    received.borrow_mut().push(msg.payload()[0]);
                }
                ended.set(true);
            })
            .unwrap();
    }

    pool.run_until_stalled();

    let expected: Vec<u8> = (0..buffered).collect();
    assert_eq!(*received.borrow(), expected, "every buffered message is handed out");
    assert!(ended.get(), "the stream ends once the context is gone");

    drop(handle);
}

#[test]
fn stream_with_short_backlog_ends_after_context_is_gone() {
    backlog_then_teardown(3);
}

#[test]
fn stream_with_long_backlog_ends_after_context_is_gone() {
    backlog_then_teardown(40);
}
