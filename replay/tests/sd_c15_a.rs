//! C15 demonstration: a dropped subscription stream must not disturb other callers.
//!
//! Scenario (single-threaded, fully scripted in-memory broker):
//!   1. connect
//!   2. subscribe "dead"  -> SUBACK, the resulting stream is dropped right away
//!   3. subscribe "live"  -> SUBACK, the stream is kept
//!   4. publish QoS 1 "out"; when the broker sees that PUBLISH it answers with
//!        a) a message for the *dropped* subscription,
//!        b) a message for the live subscription,
//!        c) the PUBACK of the QoS 1 publish.
//! Expected: the publish completes with Ok(()), the live stream yields its message and
//! `run()` is still serving the connection.

use futures::{
    executor::LocalPool, task::LocalSpawnExt, AsyncRead, AsyncWrite, StreamExt,
};
use poster::{
    error::MqttError, ConnectOpts, Context, PublishOpts, QoS, SubscribeOpts, SubscriptionOpts,
};
use std::{
    cell::RefCell,
    collections::VecDeque,
    io,
    pin::Pin,
    rc::Rc,
    task::{Context as TaskCx, Poll, Waker},
};

#[derive(Default)]
struct Wire {
    /// Bytes travelling broker -> client.
    to_client: VecDeque<u8>,
    /// Bytes written by the client, not yet parsed into whole packets.
    from_client: Vec<u8>,
    /// Packet types (first byte) of everything the client has sent.
    seen: Vec<u8>,
    /// Subscription identifiers in the order the client subscribed.
    sub_ids: Vec<u8>,
    rx_waker: Option<Waker>,
}

impl Wire {
    fn send(&mut self, bytes: &[u8]) {
        self.to_client.extend(bytes.iter().copied());
        if let Some(waker) = self.rx_waker.take() {
            waker.wake();
        }
    }

    fn inbound_publish(&mut self, sub_id: u8, payload: u8) {
        // PUBLISH QoS 0, topic "t", properties { subscription identifier }, 1 byte payload.
        self.send(&[0x30, 0x07, 0x00, 0x01, b't', 0x02, 0x0b, sub_id, payload]);
    }

    /// The scripted broker: reacts to every complete packet the client has written.
    fn broker(&mut self) {
        loop {
            if self.from_client.len() < 2 {
                return;
            }
            let remaining = self.from_client[1] as usize;
            assert!(remaining < 128, "demo only uses short packets");
            if self.from_client.len() < 2 + remaining {
                return;
            }
            let packet: Vec<u8> = self.from_client.drain(..2 + remaining).collect();
            self.seen.push(packet[0]);

            match packet[0] >> 4 {
                // CONNECT -> CONNACK (success, no properties)
                1 => self.send(&[0x20, 0x03, 0x00, 0x00, 0x00]),
                // SUBSCRIBE -> SUBACK (granted QoS 0)
                8 => {
                    // packet id (2), properties length (1), 0x0b, subscription identifier
                    assert_eq!(packet[5], 0x0b);
                    self.sub_ids.push(packet[6]);
                    self.send(&[0x90, 0x04, packet[2], packet[3], 0x00, 0x00]);
                }
                // PUBLISH QoS 1 from the client
                3 => {
                    assert_eq!(packet[0] & 0x06, 0x02, "QoS 1 expected");
                    let topic_len = u16::from_be_bytes([packet[2], packet[3]]) as usize;
                    let id = [packet[4 + topic_len], packet[5 + topic_len]];

                    let (dead, live) = (self.sub_ids[0], self.sub_ids[1]);
                    self.inbound_publish(dead, b'd');
                    self.inbound_publish(live, b'l');
                    self.send(&[0x40, 0x02, id[0], id[1]]);
                }
                other => panic!("unexpected packet type {other} from the client"),
            }
        }
    }
}

struct Rx(Rc<RefCell<Wire>>);
struct Tx(Rc<RefCell<Wire>>);

impl AsyncRead for Rx {
    fn poll_read(
        self: Pin<&mut Self>,
        cx: &mut TaskCx<'_>,
        buf: &mut [u8],
    ) -> Poll<io::Result<usize>> {
        let mut wire = self.0.borrow_mut();
        if wire.to_client.is_empty() {
            wire.rx_waker = Some(cx.waker().clone());
            return Poll::Pending;
        }
        let n = buf.len().min(wire.to_client.len());
        for (dst, src) in buf.iter_mut().zip(wire.to_client.drain(..n)) {
            *dst = src;
        }
        Poll::Ready(Ok(n))
    }
}

impl AsyncWrite for Tx {
    fn poll_write(
        self: Pin<&mut Self>,
        _cx: &mut TaskCx<'_>,
        buf: &[u8],
    ) -> Poll<io::Result<usize>> {
        let mut wire = self.0.borrow_mut();
        wire.from_client.extend_from_slice(buf);
        wire.broker();
        Poll::Ready(Ok(buf.len()))
    }

    fn poll_flush(self: Pin<&mut Self>, _cx: &mut TaskCx<'_>) -> Poll<io::Result<()>> {
        Poll::Ready(Ok(()))
    }

    fn poll_close(self: Pin<&mut Self>, _cx: &mut TaskCx<'_>) -> Poll<io::Result<()>> {
        Poll::Ready(Ok(()))
    }
}

#[test]
fn dropped_subscription_stream_does_not_disturb_pending_publish() {
    let wire = Rc::new(RefCell::new(Wire::default()));

    let run_result: Rc<RefCell<Option<Result<(), MqttError>>>> = Rc::new(RefCell::new(None));
    let publish_result: Rc<RefCell<Option<Result<(), MqttError>>>> = Rc::new(RefCell::new(None));
    let live_message: Rc<RefCell<Option<Vec<u8>>>> = Rc::new(RefCell::new(None));

    let (mut ctx, handle) = Context::new();
    ctx.set_up((Rx(wire.clone()), Tx(wire.clone())));

    let mut pool = LocalPool::new();
    let spawner = pool.spawner();

    // The connection task.
    {
        let run_result = run_result.clone();
        spawner
            .spawn_local(async move {
                ctx.connect(ConnectOpts::new()).await.expect("connect");
                let res = ctx.run().await;
                *run_result.borrow_mut() = Some(res);
            })
            .unwrap();
    }

    // The application task.
    {
        let mut handle = handle.clone();
        let publish_result = publish_result.clone();
        let live_message = live_message.clone();
        spawner
            .spawn_local(async move {
                let dead = handle
                    .subscribe(SubscribeOpts::new().subscription("dead", SubscriptionOpts::new()))
                    .await
                    .expect("subscribe dead");
                // The application loses interest in this subscription.
                drop(dead.stream());

                let mut live = handle
                    .subscribe(SubscribeOpts::new().subscription("live", SubscriptionOpts::new()))
                    .await
                    .expect("subscribe live")
                    .stream();

                let res = handle
                    .publish(
                        PublishOpts::new()
                            .topic_name("out")
                            .qos(QoS::AtLeastOnce)
                            .payload(b"p"),
                    )
                    .await;
                *publish_result.borrow_mut() = Some(res);

                let msg = live.next().await.expect("live stream ended");
                *live_message.borrow_mut() = Some(msg.payload().to_vec());
            })
            .unwrap();
    }

    pool.run_until_stalled();

    // Sanity: the whole script has been played.
    assert_eq!(wire.borrow().seen, vec![0x10, 0x82, 0x82, 0x32]);
    assert!(wire.borrow().to_client.is_empty(), "client did not read everything");

    assert!(
        run_result.borrow().is_none(),
        "run() returned: {:?}",
        run_result.borrow()
    );

    let publish_result = publish_result.borrow_mut().take();
    assert!(
        matches!(publish_result, Some(Ok(()))),
        "QoS 1 publish did not complete with its PUBACK: {:?}",
        publish_result
    );

    assert_eq!(live_message.borrow().as_deref(), Some(&b"l"[..]));

    // Keep the handle alive until the end so that run() has no reason to stop.
    drop(handle);
}
