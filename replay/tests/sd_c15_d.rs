//! C15 demonstration: a QoS 2 publish is abandoned between its two phases, at the moment when
//! its PUBREL has been handed over to the context but is not yet written. The exchange must
//! still be completed on the wire (PUBREL out, PUBCOMP absorbed) so that its flow-control slot
//! is given back and the next publish of another caller goes through.

use futures::{task::noop_waker, AsyncRead, AsyncWrite};
use poster::{ConnectOpts, Context, PublishOpts, QoS};
use std::{
    cell::RefCell,
    collections::VecDeque,
    future::Future,
    io,
    pin::Pin,
    rc::Rc,
    task::{Context as TaskContext, Poll},
};

#[derive(Clone, Default)]
struct Wire(Rc<RefCell<VecDeque<u8>>>);

impl Wire {
    fn feed(&self, bytes: &[u8]) {
        self.0.borrow_mut().extend(bytes.iter().copied());
    }

    fn take(&self) -> Vec<u8> {
        self.0.borrow_mut().drain(..).collect()
    }
}

impl AsyncRead for Wire {
    fn poll_read(
        self: Pin<&mut Self>,
        _: &mut TaskContext<'_>,
        buf: &mut [u8],
    ) -> Poll<io::Result<usize>> {
        let mut inner = self.0.borrow_mut();
        if inner.is_empty() {
            return Poll::Pending; // Polled by hand, no waker needed.
        }
        let n = buf.len().min(inner.len());
        for (dst, src) in buf.iter_mut().zip(inner.drain(..n)) {
            *dst = src;
        }
        Poll::Ready(Ok(n))
    }
}

impl AsyncWrite for Wire {
    fn poll_write(
        self: Pin<&mut Self>,
        _: &mut TaskContext<'_>,
        buf: &[u8],
    ) -> Poll<io::Result<usize>> {
        self.0.borrow_mut().extend(buf.iter().copied());
        Poll::Ready(Ok(buf.len()))
    }

    fn poll_flush(self: Pin<&mut Self>, _: &mut TaskContext<'_>) -> Poll<io::Result<()>> {
        Poll::Ready(Ok(()))
    }

    fn poll_close(self: Pin<&mut Self>, _: &mut TaskContext<'_>) -> Poll<io::Result<()>> {
        Poll::Ready(Ok(()))
    }
}

fn poll<F: Future + ?Sized>(fut: &mut Pin<Box<F>>) -> Poll<F::Output> {
    let waker = noop_waker();
    let mut cx = TaskContext::from_waker(&waker);
    fut.as_mut().poll(&mut cx)
}

#[test]
fn abandoned_qos2_publish_between_phases_releases_its_slot() {
    let to_client = Wire::default();
    let from_client = Wire::default();

    let (mut ctx, handle) = Context::new();
    ctx.set_up((to_client.clone(), from_client.clone()));

    // CONNACK, success, Receive Maximum = 1: a single QoS>0 publish may be in flight.
    to_client.feed(&[0x20, 0x06, 0x00, 0x00, 0x03, 0x21, 0x00, 0x01]);
    futures::executor::block_on(ctx.connect(ConnectOpts::new())).expect("connect");
    from_client.take(); // CONNECT

    let mut run = Box::pin(ctx.run());
    assert!(poll(&mut run).is_pending());

    // Caller A: QoS 2 publish, packet identifier 1.
    let mut handle_a = handle.clone();
    let mut publish_a = Box::pin(async move {
        handle_a
            .publish(
                PublishOpts::new()
                    .qos(QoS::ExactlyOnce)
                    .topic_name("a/b")
                    .payload(b"x"),
            )
            .await
    });

    assert!(poll(&mut publish_a).is_pending()); // PUBLISH handed to the context
    assert!(poll(&mut run).is_pending()); // PUBLISH written
    let publish_bytes = from_client.take();
    assert_eq!(publish_bytes[0] >> 4, 3, "PUBLISH expected on the wire");

    to_client.feed(&[0x50, 0x02, 0x00, 0x01]); // PUBREC 1
    assert!(poll(&mut run).is_pending()); // PUBREC routed to caller A
    assert!(poll(&mut publish_a).is_pending()); // A hands PUBREL over, now waits for PUBCOMP

    // A is cancelled right here: PUBREL is queued in the context, not yet written.
    drop(publish_a);

    assert!(poll(&mut run).is_pending(), "run() must keep serving");
    // The scripted broker is faithful: it answers PUBCOMP only to a PUBREL it has actually seen.
    let released = from_client.take();
    if released == [0x62, 0x02, 0x00, 0x01] {
        to_client.feed(&[0x70, 0x02, 0x00, 0x01]); // PUBCOMP 1, absorbed silently
    }
    assert!(poll(&mut run).is_pending(), "run() must keep serving");

    // Caller B: QoS 1 publish, packet identifier 2. Needs the slot A was holding.
    let mut handle_b = handle.clone();
    let mut publish_b = Box::pin(async move {
        handle_b
            .publish(
                PublishOpts::new()
                    .qos(QoS::AtLeastOnce)
                    .topic_name("a/b")
                    .payload(b"y"),
            )
            .await
    });

    assert!(poll(&mut publish_b).is_pending());
    assert!(poll(&mut run).is_pending());
    to_client.feed(&[0x40, 0x02, 0x00, 0x02]); // PUBACK 2
    assert!(poll(&mut run).is_pending());

    match poll(&mut publish_b) {
        Poll::Ready(result) => result.expect(
            "publish of caller B must be acknowledged (slot of the abandoned QoS 2 publish not released)",
        ),
        Poll::Pending => panic!("publish of caller B did not complete"),
    }

    assert_eq!(
        released,
        vec![0x62, 0x02, 0x00, 0x01],
        "PUBREL of the abandoned publish must still be written"
    );
}
