//! A QoS 1 publish whose caller gave up must still give its flow control slot back when the
//! (late) PUBACK arrives, whatever other operations were submitted in between.
//!
//! Broker announces Receive Maximum = 1. Sequence:
//!   1. publish A (QoS 1, id 1) is written, its future is dropped while awaiting PUBACK;
//!   2. a ping is performed by another caller (PINGREQ / PINGRESP);
//!   3. the late PUBACK for id 1 arrives;
//!   4. publish C (QoS 1, id 2) must be written and complete with its own PUBACK.

use futures::{
    executor::LocalPool,
    task::{noop_waker, LocalSpawnExt},
    AsyncRead, AsyncWrite,
};
use poster::{error::MqttError, ConnectOpts, Context, PublishOpts, QoS};
use std::{
    cell::RefCell,
    collections::VecDeque,
    future::Future,
    io,
    pin::Pin,
    rc::Rc,
    task::{Context as TaskContext, Poll, Waker},
};

#[derive(Default)]
struct Shared {
    buf: VecDeque<u8>,
    waker: Option<Waker>,
}

/// One direction of the in-memory transport.
#[derive(Clone, Default)]
struct Pipe(Rc<RefCell<Shared>>);

impl Pipe {
    fn feed(&self, bytes: &[u8]) {
        let mut shared = self.0.borrow_mut();
        shared.buf.extend(bytes.iter().copied());
        if let Some(waker) = shared.waker.take() {
            waker.wake();
        }
    }

    fn drain(&self) -> Vec<u8> {
        self.0.borrow_mut().buf.drain(..).collect()
    }
}

impl AsyncRead for Pipe {
    fn poll_read(
        self: Pin<&mut Self>,
        cx: &mut TaskContext<'_>,
        out: &mut [u8],
    ) -> Poll<io::Result<usize>> {
        let mut shared = self.0.borrow_mut();
        if shared.buf.is_empty() {
            shared.waker = Some(cx.waker().clone());
            return Poll::Pending;
        }
        let n = out.len().min(shared.buf.len());
        for slot in out.iter_mut().take(n) {
            *slot = shared.buf.pop_front().unwrap();
        }
        Poll::Ready(Ok(n))
    }
}

impl AsyncWrite for Pipe {
    fn poll_write(
        self: Pin<&mut Self>,
        _: &mut TaskContext<'_>,
        data: &[u8],
    ) -> Poll<io::Result<usize>> {
        self.0.borrow_mut().buf.extend(data.iter().copied());
        Poll::Ready(Ok(data.len()))
    }

    fn poll_flush(self: Pin<&mut Self>, _: &mut TaskContext<'_>) -> Poll<io::Result<()>> {
        Poll::Ready(Ok(()))
    }

    fn poll_close(self: Pin<&mut Self>, _: &mut TaskContext<'_>) -> Poll<io::Result<()>> {
        Poll::Ready(Ok(()))
    }
}

// CONNACK: no session present, reason 0, Receive Maximum (0x21) = 1.
const CONNACK_RM1: [u8; 8] = [0x20, 0x06, 0x00, 0x00, 0x03, 0x21, 0x00, 0x01];
const PINGREQ: [u8; 2] = [0xC0, 0x00];
const PINGRESP: [u8; 2] = [0xD0, 0x00];

fn puback(id: u16) -> [u8; 6] {
    let id = id.to_be_bytes();
    [0x40, 0x04, id[0], id[1], 0x00, 0x00]
}

/// (fixed header first byte, packet identifier) of a QoS 1 PUBLISH to topic "t" with no properties.
fn parse_publish(bytes: &[u8]) -> (u8, u16) {
    // hdr, remaining length, topic length (2), "t", packet id (2), property length, payload
    assert!(bytes.len() >= 8, "not a complete PUBLISH: {:02x?}", bytes);
    assert_eq!(bytes[0] >> 4, 3, "not a PUBLISH: {:02x?}", bytes);
    assert_eq!(&bytes[2..5], &[0x00, 0x01, b't']);
    (bytes[0], u16::from_be_bytes([bytes[5], bytes[6]]))
}

#[test]
fn cancelled_publish_frees_its_slot_on_late_puback() {
    let to_client = Pipe::default();
    let to_broker = Pipe::default();

    let mut pool = LocalPool::new();
    let spawner = pool.spawner();

    let (mut ctx, handle) = Context::<Pipe, Pipe>::new();
    ctx.set_up((to_client.clone(), to_broker.clone()));

    to_client.feed(&CONNACK_RM1);
    pool.run_until(ctx.connect(ConnectOpts::new().client_identifier("demo")))
        .expect("connect");
    let connect_bytes = to_broker.drain();
    assert_eq!(connect_bytes[0], 0x10);

    let run_result: Rc<RefCell<Option<Result<(), MqttError>>>> = Rc::new(RefCell::new(None));
    {
        let run_result = run_result.clone();
        spawner
            .spawn_local(async move {
                let res = ctx.run().await;
                *run_result.borrow_mut() = Some(res);
            })
            .unwrap();
    }
    pool.run_until_stalled();

    // 1. publish A, abandoned while it awaits its PUBACK.
    let mut handle_a = handle.clone();
    let mut fut_a = Box::pin(async move {
        handle_a
            .publish(
                PublishOpts::new()
                    .qos(QoS::AtLeastOnce)
                    .topic_name("t")
                    .payload(b"a"),
            )
            .await
    });
    let waker = noop_waker();
    let mut cx = TaskContext::from_waker(&waker);
    assert!(fut_a.as_mut().poll(&mut cx).is_pending());
    pool.run_until_stalled();

    let (_, id_a) = parse_publish(&to_broker.drain());
    assert!(fut_a.as_mut().poll(&mut cx).is_pending());
    drop(fut_a);
    pool.run_until_stalled();

    // 2. another caller pings.
    let ping_result: Rc<RefCell<Option<Result<(), MqttError>>>> = Rc::new(RefCell::new(None));
    {
        let mut handle_b = handle.clone();
        let ping_result = ping_result.clone();
        spawner
            .spawn_local(async move {
                let res = handle_b.ping().await;
                *ping_result.borrow_mut() = Some(res);
            })
            .unwrap();
    }
    pool.run_until_stalled();
    assert_eq!(to_broker.drain(), PINGREQ);
    to_client.feed(&PINGRESP);
    pool.run_until_stalled();
    assert!(
        matches!(*ping_result.borrow(), Some(Ok(()))),
        "ping of the surviving caller must complete"
    );

    // 3. late PUBACK of the abandoned publish.
    to_client.feed(&puback(id_a));
    pool.run_until_stalled();
    assert!(run_result.borrow().is_none(), "run() must stay pending");
    assert!(to_broker.drain().is_empty());

    // 4. the slot is free again: publish C goes out and completes.
    let publish_result: Rc<RefCell<Option<Result<(), MqttError>>>> = Rc::new(RefCell::new(None));
    {
        let mut handle_c = handle.clone();
        let publish_result = publish_result.clone();
        spawner
            .spawn_local(async move {
                let res = handle_c
                    .publish(
                        PublishOpts::new()
                            .qos(QoS::AtLeastOnce)
                            .topic_name("t")
                            .payload(b"c"),
                    )
                    .await;
                *publish_result.borrow_mut() = Some(res);
            })
            .unwrap();
    }
    pool.run_until_stalled();

    if let Some(early) = publish_result.borrow().as_ref() {
        panic!(
            "publish C finished before any PUBACK, the slot of the abandoned publish was not freed: {:?}",
            early.as_ref().map_err(|e| e.to_string())
        );
    }

    let (hdr_c, id_c) = parse_publish(&to_broker.drain());
    assert_eq!(hdr_c & 0x08, 0, "first transmission carries no DUP flag");
    assert_ne!(id_c, id_a);
    to_client.feed(&puback(id_c));
    pool.run_until_stalled();

    assert!(
        matches!(*publish_result.borrow(), Some(Ok(()))),
        "publish C must complete with its own PUBACK"
    );
    assert!(run_result.borrow().is_none(), "run() must stay pending");
}

/// Control: the same sequence without the intermediate ping.
#[test]
fn cancelled_publish_frees_its_slot_without_intermediate_operation() {
    let to_client = Pipe::default();
    let to_broker = Pipe::default();

    let mut pool = LocalPool::new();
    let spawner = pool.spawner();

    let (mut ctx, handle) = Context::<Pipe, Pipe>::new();
    ctx.set_up((to_client.clone(), to_broker.clone()));

    to_client.feed(&CONNACK_RM1);
    pool.run_until(ctx.connect(ConnectOpts::new().client_identifier("demo")))
        .expect("connect");
    to_broker.drain();

    spawner
        .spawn_local(async move {
            let _ = ctx.run().await;
        })
        .unwrap();

    let mut handle_a = handle.clone();
    let mut fut_a = Box::pin(async move {
        handle_a
            .publish(
                PublishOpts::new()
                    .qos(QoS::AtLeastOnce)
                    .topic_name("t")
                    .payload(b"a"),
            )
            .await
    });
    let waker = noop_waker();
    let mut cx = TaskContext::from_waker(&waker);
    assert!(fut_a.as_mut().poll(&mut cx).is_pending());
    pool.run_until_stalled();
    let (_, id_a) = parse_publish(&to_broker.drain());
    drop(fut_a);

    to_client.feed(&puback(id_a));
    pool.run_until_stalled();

    let publish_result: Rc<RefCell<Option<Result<(), MqttError>>>> = Rc::new(RefCell::new(None));
    {
        let mut handle_c = handle.clone();
        let publish_result = publish_result.clone();
        spawner
            .spawn_local(async move {
                let res = handle_c
                    .publish(
                        PublishOpts::new()
                            .qos(QoS::AtLeastOnce)
                            .topic_name("t")
                            .payload(b"c"),
                    )
                    .await;
                *publish_result.borrow_mut() = Some(res);
            })
            .unwrap();
    }
    pool.run_until_stalled();
    let (_, id_c) = parse_publish(&to_broker.drain());
    to_client.feed(&puback(id_c));
    pool.run_until_stalled();
    assert!(matches!(*publish_result.borrow(), Some(Ok(()))));
}
