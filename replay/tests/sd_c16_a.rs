//! C16 demonstration: an executor which polls only woken tasks must reach exactly the same
//! written bytes, results and stream items as one that additionally sweeps (polls) every
//! non-woken task after every event.
//!
//! The transport is an in-memory scripted one. Like a real reactor it remembers the waker of
//! the *last* `poll_read` that returned `Pending` and consumes it when data arrives.

use futures::{
    task::{waker, ArcWake},
    AsyncRead, AsyncWrite, StreamExt,
};
use poster::{ConnectOpts, Context, SubscribeOpts, SubscriptionOpts};
use std::{
    cell::RefCell,
    collections::VecDeque,
    future::Future,
    io,
    pin::Pin,
    rc::Rc,
    sync::{
        atomic::{AtomicBool, Ordering},
        Arc,
    },
    task::{Context as TaskCx, Poll, Waker},
};

// ---------------------------------------------------------------------------------------------
// Scripted transport
// ---------------------------------------------------------------------------------------------

#[derive(Default)]
struct Wire {
    inbound: VecDeque<Vec<u8>>,
    read_waker: Option<Waker>,
    written: Vec<u8>,
}

#[derive(Clone, Default)]
struct Shared(Rc<RefCell<Wire>>);

impl Shared {
    /// The "network" delivers one chunk and fires the wakeup the reader has arranged (if any).
    fn deliver(&self, chunk: &[u8]) {
        let maybe_waker = {
            let mut wire = self.0.borrow_mut();
            wire.inbound.push_back(chunk.to_vec());
            wire.read_waker.take()
        };
        if let Some(w) = maybe_waker {
            w.wake();
        }
    }
}

struct Reader(Shared);
struct Writer(Shared);

impl AsyncRead for Reader {
    fn poll_read(
        self: Pin<&mut Self>,
        cx: &mut TaskCx<'_>,
        buf: &mut [u8],
    ) -> Poll<io::Result<usize>> {
        let mut wire = self.0 .0.borrow_mut();
        match wire.inbound.pop_front() {
            Some(mut chunk) => {
                let n = chunk.len().min(buf.len());
                buf[..n].copy_from_slice(&chunk[..n]);
                if n < chunk.len() {
                    wire.inbound.push_front(chunk.split_off(n));
                }
                Poll::Ready(Ok(n))
            }
            None => {
                wire.read_waker = Some(cx.waker().clone());
                Poll::Pending
            }
        }
    }
}

impl AsyncWrite for Writer {
    fn poll_write(
        self: Pin<&mut Self>,
        _: &mut TaskCx<'_>,
        buf: &[u8],
    ) -> Poll<io::Result<usize>> {
        self.0 .0.borrow_mut().written.extend_from_slice(buf);
        Poll::Ready(Ok(buf.len()))
    }

    fn poll_flush(self: Pin<&mut Self>, _: &mut TaskCx<'_>) -> Poll<io::Result<()>> {
        Poll::Ready(Ok(()))
    }

    fn poll_close(self: Pin<&mut Self>, _: &mut TaskCx<'_>) -> Poll<io::Result<()>> {
        Poll::Ready(Ok(()))
    }
}

// ---------------------------------------------------------------------------------------------
// Tiny executor: one wake flag per task
// ---------------------------------------------------------------------------------------------

struct Flag(AtomicBool);

impl ArcWake for Flag {
    fn wake_by_ref(arc_self: &Arc<Self>) {
        arc_self.0.store(true, Ordering::SeqCst);
    }
}

struct Task {
    fut: Option<Pin<Box<dyn Future<Output = ()>>>>,
    flag: Arc<Flag>,
}

#[derive(Clone, Copy, Debug, PartialEq)]
enum Mode {
    /// Polls a task only after its waker has fired.
    WakeOnly,
    /// As above, and additionally polls every non-woken task once after every event.
    Sweep,
}

struct Exec {
    tasks: Vec<Task>,
    mode: Mode,
}

impl Exec {
    fn new(mode: Mode) -> Self {
        Self {
            tasks: Vec::new(),
            mode,
        }
    }

    fn spawn(&mut self, fut: impl Future<Output = ()> + 'static) {
        self.tasks.push(Task {
            fut: Some(Box::pin(fut)),
            flag: Arc::new(Flag(AtomicBool::new(true))), // New tasks are polled once.
        });
    }

    fn poll_task(task: &mut Task) {
        if let Some(fut) = task.fut.as_mut() {
            let w = waker(task.flag.clone());
            let mut cx = TaskCx::from_waker(&w);
            if fut.as_mut().poll(&mut cx).is_ready() {
                task.fut = None;
            }
        }
    }

    fn run_woken(&mut self) {
        loop {
            let mut progressed = false;
            for task in self.tasks.iter_mut() {
                if task.flag.0.swap(false, Ordering::SeqCst) {
                    progressed = true;
                    Self::poll_task(task);
                }
            }
            if !progressed {
                break;
            }
        }
    }

    /// Called after every event (a chunk having been delivered).
    fn settle(&mut self) {
        self.run_woken();
        if self.mode == Mode::Sweep {
            for task in self.tasks.iter_mut() {
                Self::poll_task(task); // Spurious poll, nobody has woken the task.
            }
            self.run_woken();
        }
    }
}

// ---------------------------------------------------------------------------------------------
// Scenario
// ---------------------------------------------------------------------------------------------

#[derive(Debug, Default, PartialEq)]
struct Outcome {
    written: Vec<u8>,
    connected: bool,
    subscribed: bool,
    items: Vec<(String, Vec<u8>)>,
    run_result: Option<String>,
}

const CONNACK: [u8; 5] = [0x20, 0x03, 0x00, 0x00, 0x00];
// Packet identifier 1, no properties, granted QoS 0.
const SUBACK: [u8; 6] = [0x90, 0x04, 0x00, 0x01, 0x00, 0x00];

/// QoS 0 PUBLISH on topic "a", subscription identifier 1.
fn publish(payload_len: usize) -> Vec<u8> {
    let mut body = vec![0x00, 0x01, b'a', 0x02, 0x0B, 0x01];
    body.extend((0..payload_len).map(|i| i as u8));

    let mut packet = vec![0x30];
    let mut len = body.len();
    loop {
        let mut byte = (len % 128) as u8;
        len /= 128;
        if len > 0 {
            byte |= 0x80;
        }
        packet.push(byte);
        if len == 0 {
            break;
        }
    }
    packet.extend(body);
    packet
}

fn scenario(mode: Mode, chunks: &[Vec<u8>], expected_items: usize) -> Outcome {
    let shared = Shared::default();
    let outcome = Rc::new(RefCell::new(Outcome::default()));

    let (mut ctx, mut handle) = Context::new();
    let mut exec = Exec::new(mode);

    {
        let outcome = outcome.clone();
        let (rx, tx) = (Reader(shared.clone()), Writer(shared.clone()));
        exec.spawn(async move {
            ctx.set_up((rx, tx));
            let connected = ctx.connect(ConnectOpts::new()).await.is_ok();
            outcome.borrow_mut().connected = connected;
            if connected {
                let res = ctx.run().await;
                outcome.borrow_mut().run_result = Some(format!("{:?}", res));
            }
        });
    }

    {
        let outcome = outcome.clone();
        exec.spawn(async move {
            let rsp = handle
                .subscribe(SubscribeOpts::new().subscription("a", SubscriptionOpts::new()))
                .await;
            let rsp = match rsp {
                Ok(rsp) => rsp,
                Err(_) => return,
            };
            outcome.borrow_mut().subscribed = true;

            let mut stream = rsp.stream();
            for _ in 0..expected_items {
                match stream.next().await {
                    Some(data) => outcome
                        .borrow_mut()
                        .items
                        .push((data.topic_name().to_string(), data.payload().to_vec())),
                    None => break,
                }
            }
            // Keep the handle (and thus the context) alive.
            futures::future::pending::<()>().await;
        });
    }

    exec.settle();
    for chunk in chunks {
        shared.deliver(chunk);
        exec.settle();
    }

    let mut outcome = Rc::try_unwrap(outcome)
        .unwrap_or_else(|rc| RefCell::new(std::mem::take(&mut *rc.borrow_mut())))
        .into_inner();
    outcome.written = shared.0.borrow().written.clone();
    outcome
}

fn one_byte_chunks(packets: &[&[u8]]) -> Vec<Vec<u8>> {
    packets
        .iter()
        .flat_map(|p| p.iter().map(|b| vec![*b]))
        .collect()
}

fn check(chunks: &[Vec<u8>], expected_payloads: &[usize]) {
    let wake_only = scenario(Mode::WakeOnly, chunks, expected_payloads.len());
    let sweep = scenario(Mode::Sweep, chunks, expected_payloads.len());

    assert!(sweep.connected && sweep.subscribed);
    assert_eq!(
        sweep.items.iter().map(|(_, p)| p.len()).collect::<Vec<_>>(),
        expected_payloads,
        "sweeping executor did not see the published messages"
    );
    assert_eq!(
        wake_only, sweep,
        "wake-only executor and sweeping executor disagree"
    );
}

/// Baseline: small packets, 1-byte read chunking.
#[test]
fn small_publish_one_byte_chunks() {
    let p = publish(10);
    check(&one_byte_chunks(&[&CONNACK, &SUBACK, &p]), &[10]);
}

/// Baseline: large packet delivered whole.
#[test]
fn large_publish_whole_packets() {
    let p = publish(150);
    check(&[CONNACK.to_vec(), SUBACK.to_vec(), p], &[150]);
}

/// A PUBLISH whose remaining length needs two bytes, arriving one byte at a time: after the
/// second byte the library knows the fixed header but not yet the whole length.
#[test]
fn large_publish_one_byte_chunks() {
    let p = publish(150);
    assert_eq!(&p[..3], &[0x30, 0x9C, 0x01]);
    check(&one_byte_chunks(&[&CONNACK, &SUBACK, &p]), &[150]);
}

/// Whole-packet chunking where a segment boundary falls one byte into the next packet.
#[test]
fn segment_ends_one_byte_into_next_packet() {
    let p = publish(10);
    let mut first = SUBACK.to_vec();
    first.push(p[0]);
    check(&[CONNACK.to_vec(), first, p[1..].to_vec()], &[10]);
}

/// Same, with two back-to-back PUBLISH packets in the stream of segments.
#[test]
fn back_to_back_publishes_split_after_fixed_header() {
    let p1 = publish(20);
    let p2 = publish(30);
    let mut seg = p1.clone();
    seg.push(p2[0]);
    check(
        &[CONNACK.to_vec(), SUBACK.to_vec(), seg, p2[1..].to_vec()],
        &[20, 30],
    );
}
