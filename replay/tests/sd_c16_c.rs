//! C16 demonstration: an executor that polls only woken tasks must reach exactly the same
//! bytes, results and stream items as one that additionally polls every non-woken task
//! after every event.
//!
//! Scenario: a client subscribes, then the broker sends a burst of QoS 0 PUBLISH packets
//! (one transport event each) while no handle operation is in flight.

use futures::{
    task::{waker, ArcWake},
    AsyncRead, AsyncWrite, StreamExt,
};
use poster::{ConnectOpts, Context, SubscribeOpts, SubscriptionOpts};
use std::{
    cell::RefCell,
    collections::VecDeque,
    future::Future,
    io,
    pin::Pin,
    rc::Rc,
    sync::{
        atomic::{AtomicBool, Ordering},
        Arc,
    },
    task::{Context as TaskContext, Poll, Waker},
};

// ---------------------------------------------------------------------------------------------
// Scripted in-memory transport
// ---------------------------------------------------------------------------------------------

#[derive(Default)]
struct Wire {
    inbound: VecDeque<u8>,
    read_waker: Option<Waker>,
    one_byte_reads: bool,
    written: Vec<u8>,
}

#[derive(Clone)]
struct Rx(Rc<RefCell<Wire>>);
#[derive(Clone)]
struct Tx(Rc<RefCell<Wire>>);

impl AsyncRead for Rx {
    fn poll_read(
        self: Pin<&mut Self>,
        cx: &mut TaskContext<'_>,
        buf: &mut [u8],
    ) -> Poll<io::Result<usize>> {
        let mut wire = self.0.borrow_mut();
        if wire.inbound.is_empty() {
            wire.read_waker = Some(cx.waker().clone());
            return Poll::Pending;
        }
        let limit = if wire.one_byte_reads { 1 } else { buf.len() };
        let n = limit.min(wire.inbound.len());
        for slot in buf.iter_mut().take(n) {
            *slot = wire.inbound.pop_front().unwrap();
        }
        Poll::Ready(Ok(n))
    }
}

impl AsyncWrite for Tx {
    fn poll_write(
        self: Pin<&mut Self>,
        _: &mut TaskContext<'_>,
        buf: &[u8],
    ) -> Poll<io::Result<usize>> {
        self.0.borrow_mut().written.extend_from_slice(buf);
        Poll::Ready(Ok(buf.len()))
    }
    fn poll_flush(self: Pin<&mut Self>, _: &mut TaskContext<'_>) -> Poll<io::Result<()>> {
        Poll::Ready(Ok(()))
    }
    fn poll_close(self: Pin<&mut Self>, _: &mut TaskContext<'_>) -> Poll<io::Result<()>> {
        Poll::Ready(Ok(()))
    }
}

/// The broker makes `bytes` readable; the reader is woken if (and only if) it asked to be.
fn feed(wire: &Rc<RefCell<Wire>>, bytes: &[u8]) {
    let waker = {
        let mut wire = wire.borrow_mut();
        wire.inbound.extend(bytes.iter().copied());
        wire.read_waker.take()
    };
    if let Some(waker) = waker {
        waker.wake();
    }
}

// ---------------------------------------------------------------------------------------------
// Minimal executor: polls woken tasks only; optionally sweeps the non-woken ones as well
// ---------------------------------------------------------------------------------------------

struct Flag(AtomicBool);

impl ArcWake for Flag {
    fn wake_by_ref(arc_self: &Arc<Self>) {
        arc_self.0.store(true, Ordering::SeqCst);
    }
}

struct Task {
    fut: Option<Pin<Box<dyn Future<Output = ()>>>>,
    flag: Arc<Flag>,
}

struct Executor {
    tasks: Vec<Task>,
    sweep: bool,
}

impl Executor {
    fn spawn(&mut self, fut: impl Future<Output = ()> + 'static) {
        self.tasks.push(Task {
            fut: Some(Box::pin(fut)),
            flag: Arc::new(Flag(AtomicBool::new(true))), // first poll
        });
    }

    fn poll_task(&mut self, idx: usize) {
        let task = &mut self.tasks[idx];
        task.flag.0.store(false, Ordering::SeqCst);
        if let Some(fut) = task.fut.as_mut() {
            let waker = waker(task.flag.clone());
            let mut cx = TaskContext::from_waker(&waker);
            if fut.as_mut().poll(&mut cx).is_ready() {
                task.fut = None;
            }
        }
    }

    /// Polls woken tasks until none is woken.
    fn run_woken(&mut self) {
        loop {
            let mut progressed = false;
            for idx in 0..self.tasks.len() {
                if self.tasks[idx].flag.0.load(Ordering::SeqCst) {
                    self.poll_task(idx);
                    progressed = true;
                }
            }
            if !progressed {
                break;
            }
        }
    }

    /// Called after every event.
    fn settle(&mut self) {
        self.run_woken();
        if self.sweep {
            // Spurious polls: every task whose waker has not fired.
            for idx in 0..self.tasks.len() {
                self.poll_task(idx);
            }
            self.run_woken();
        }
    }
}

// ---------------------------------------------------------------------------------------------
// Scenario
// ---------------------------------------------------------------------------------------------

const CONNACK: [u8; 5] = [0x20, 0x03, 0x00, 0x00, 0x00];
const SUBACK_1: [u8; 6] = [0x90, 0x04, 0x00, 0x01, 0x00, 0x00];
const BURST: u8 = 12;

/// QoS 0 PUBLISH, topic "t", subscription identifier 1, one byte of payload.
fn publish(payload: u8) -> [u8; 9] {
    [0x30, 0x07, 0x00, 0x01, b't', 0x02, 0x0B, 0x01, payload]
}

#[derive(Debug, PartialEq)]
struct Outcome {
    written: Vec<u8>,
    items: Vec<u8>,
    run_result: Option<String>,
}

fn scenario(sweep: bool, one_byte_reads: bool) -> Outcome {
    let wire = Rc::new(RefCell::new(Wire {
        one_byte_reads,
        ..Wire::default()
    }));
    let items = Rc::new(RefCell::new(Vec::new()));
    let run_result = Rc::new(RefCell::new(None));

    let (mut ctx, mut handle) = Context::new();
    let mut exec = Executor {
        tasks: Vec::new(),
        sweep,
    };

    {
        let (rx, tx) = (Rx(wire.clone()), Tx(wire.clone()));
        let run_result = run_result.clone();
        exec.spawn(async move {
            ctx.set_up((rx, tx));
            let res = match ctx.connect(ConnectOpts::new()).await {
                Ok(_) => ctx.run().await,
                Err(err) => Err(err),
            };
            *run_result.borrow_mut() = Some(format!("{:?}", res.map_err(|e| e.to_string())));
        });
    }
    {
        let items = items.clone();
        exec.spawn(async move {
            let rsp = handle
                .subscribe(SubscribeOpts::new().subscription("t", SubscriptionOpts::new()))
                .await
                .expect("subscribe");
            let mut stream = rsp.stream();
            while let Some(msg) = stream.next().await {
                items.borrow_mut().push(msg.payload()[0]);
            }
        });
    }

    exec.settle(); // CONNECT written, SUBSCRIBE queued
    feed(&wire, &CONNACK);
    exec.settle(); // SUBSCRIBE written
    feed(&wire, &SUBACK_1);
    exec.settle(); // subscription stream handed to the application

    for n in 0..BURST {
        feed(&wire, &publish(n));
        exec.settle();
    }

    let written = wire.borrow().written.clone();
    let items = items.borrow().clone();
    let run_result = run_result.borrow().clone();
    Outcome {
        written,
        items,
        run_result,
    }
}

fn check(one_byte_reads: bool) {
    let wake_only = scenario(false, one_byte_reads);
    let with_sweep = scenario(true, one_byte_reads);

    let expected: Vec<u8> = (0..BURST).collect();
    assert_eq!(
        with_sweep.items, expected,
        "sweeping executor: every PUBLISH of the burst is delivered"
    );
    assert_eq!(
        wake_only.items, expected,
        "wake-only executor: every PUBLISH of the burst is delivered (a wakeup was lost otherwise)"
    );
    assert_eq!(
        wake_only, with_sweep,
        "wake-only and sweeping executors reach the same bytes, results and stream items"
    );
}

#[test]
fn burst_of_inbound_publishes_whole_packet_reads() {
    check(false);
}

#[test]
fn burst_of_inbound_publishes_one_byte_reads() {
    check(true);
}
