//! C16 demonstration: an executor which polls only woken tasks must reach exactly the same
//! bytes, results and stream items as one which additionally polls every task after every event.
//!
//! Scenario: one subscription, then the broker sends a burst of QoS 0 messages for it in a
//! single read chunk, later followed by one more message. The consumer task drains the stream.

use futures::{AsyncRead, AsyncWrite, StreamExt};
use poster::{ConnectOpts, Context, SubscribeOpts, SubscriptionOpts};
use std::{
    cell::RefCell,
    collections::VecDeque,
    future::Future,
    io,
    pin::Pin,
    rc::Rc,
    sync::{
        atomic::{AtomicBool, Ordering},
        Arc,
    },
    task::{Context as TaskCx, Poll, Wake, Waker},
};

// ---------------------------------------------------------------- scripted transport

#[derive(Default)]
struct Wire {
    inbound: VecDeque<Vec<u8>>,
    read_waker: Option<Waker>,
    outbound: Vec<u8>,
}

#[derive(Clone, Default)]
struct Shared(Rc<RefCell<Wire>>);

impl Shared {
    /// The broker sends `bytes` (delivered to the client as one read chunk).
    fn feed(&self, bytes: Vec<u8>) {
        let waker = {
            let mut wire = self.0.borrow_mut();
            wire.inbound.push_back(bytes);
            wire.read_waker.take()
        };
        if let Some(waker) = waker {
            waker.wake();
        }
    }
}

struct Rx(Shared);
struct Tx(Shared);

impl AsyncRead for Rx {
    fn poll_read(
        self: Pin<&mut Self>,
        cx: &mut TaskCx<'_>,
        buf: &mut [u8],
    ) -> Poll<io::Result<usize>> {
        let mut wire = self.0 .0.borrow_mut();
        match wire.inbound.pop_front() {
            Some(mut chunk) => {
                let n = chunk.len().min(buf.len());
                buf[..n].copy_from_slice(&chunk[..n]);
                if n < chunk.len() {
                    chunk.drain(..n);
                    wire.inbound.push_front(chunk);
                }
                Poll::Ready(Ok(n))
            }
            None => {
                wire.read_waker = Some(cx.waker().clone());
                Poll::Pending
            }
        }
    }
}

impl AsyncWrite for Tx {
    fn poll_write(
        self: Pin<&mut Self>,
        _cx: &mut TaskCx<'_>,
        buf: &[u8],
    ) -> Poll<io::Result<usize>> {
        self.0 .0.borrow_mut().outbound.extend_from_slice(buf);
        Poll::Ready(Ok(buf.len()))
    }

    fn poll_flush(self: Pin<&mut Self>, _cx: &mut TaskCx<'_>) -> Poll<io::Result<()>> {
        Poll::Ready(Ok(()))
    }

    fn poll_close(self: Pin<&mut Self>, _cx: &mut TaskCx<'_>) -> Poll<io::Result<()>> {
        Poll::Ready(Ok(()))
    }
}

// ---------------------------------------------------------------- tiny executor

struct Flag(AtomicBool);

impl Wake for Flag {
    fn wake(self: Arc<Self>) {
        self.0.store(true, Ordering::SeqCst);
    }
    fn wake_by_ref(self: &Arc<Self>) {
        self.0.store(true, Ordering::SeqCst);
    }
}

struct Task {
    fut: Option<Pin<Box<dyn Future<Output = ()>>>>,
    flag: Arc<Flag>,
}

struct Exec {
    tasks: Vec<Task>,
    /// Additionally poll every task whose waker has NOT fired after every event.
    sweep: bool,
}

impl Exec {
    fn spawn(&mut self, fut: impl Future<Output = ()> + 'static) {
        self.tasks.push(Task {
            fut: Some(Box::pin(fut)),
            flag: Arc::new(Flag(AtomicBool::new(true))), // a new task is polled once
        });
    }

    fn poll_task(task: &mut Task) {
        if let Some(fut) = task.fut.as_mut() {
            let waker = Waker::from(task.flag.clone());
            let mut cx = TaskCx::from_waker(&waker);
            if fut.as_mut().poll(&mut cx).is_ready() {
                task.fut = None;
            }
        }
    }

    /// Polls woken tasks until none is woken.
    fn run_woken(&mut self) {
        loop {
            let mut progressed = false;
            for task in self.tasks.iter_mut() {
                if task.flag.0.swap(false, Ordering::SeqCst) {
                    progressed = true;
                    Self::poll_task(task);
                }
            }
            if !progressed {
                break;
            }
        }
    }

    /// Called after every external event.
    fn settle(&mut self) {
        self.run_woken();
        if self.sweep {
            // Spurious polls: every task, woken or not; then whatever that woke.
            for _ in 0..4 {
                for task in self.tasks.iter_mut() {
                    Self::poll_task(task);
                }
                self.run_woken();
            }
        }
    }
}

// ---------------------------------------------------------------- scenario

/// PUBLISH, QoS 0, topic "a", subscription identifier 1, one byte of payload.
fn publish(payload: u8) -> Vec<u8> {
    vec![0x30, 0x07, 0x00, 0x01, b'a', 0x02, 0x0b, 0x01, payload]
}

struct Outcome {
    items: Vec<u8>,
    written: Vec<u8>,
}

fn scenario(sweep: bool, burst: u8) -> Outcome {
    let wire = Shared::default();
    let items = Rc::new(RefCell::new(Vec::<u8>::new()));

    let (mut ctx, mut handle) = Context::new();
    ctx.set_up((Rx(wire.clone()), Tx(wire.clone())));

    let mut exec = Exec {
        tasks: Vec::new(),
        sweep,
    };

    exec.spawn(async move {
        ctx.connect(ConnectOpts::new()).await.unwrap();
        let _ = ctx.run().await;
    });

    let sink = items.clone();
    exec.spawn(async move {
        let rsp = handle
            .subscribe(SubscribeOpts::new().subscription("a", SubscriptionOpts::new()))
            .await
            .unwrap();
        let mut stream = rsp.stream();
        while let Some(msg) = stream.next().await {
            sink.borrow_mut().push(msg.payload()[0]);
        }
    });

    exec.settle();
    wire.feed(vec![0x20, 0x03, 0x00, 0x00, 0x00]); // CONNACK, success
    exec.settle();
    wire.feed(vec![0x90, 0x04, 0x00, 0x01, 0x00, 0x00]); // SUBACK id 1, granted QoS 0
    exec.settle();

    // A burst of messages arriving in one read chunk.
    wire.feed((0..burst).flat_map(publish).collect());
    exec.settle();

    // Some time later, one more message.
    wire.feed(publish(0xff));
    exec.settle();

    let written = wire.0.borrow().outbound.clone();
    let items = items.borrow().clone();
    Outcome { items, written }
}

fn check(burst: u8) {
    let expected: Vec<u8> = (0..burst).chain(std::iter::once(0xff)).collect();

    let sweeping = scenario(true, burst);
    let wake_only = scenario(false, burst);

    assert_eq!(
        sweeping.items, expected,
        "executor with spurious polls: every message reaches the stream"
    );
    assert_eq!(
        wake_only.items, sweeping.items,
        "wake-only executor must see the same stream items as the sweeping executor"
    );
    assert_eq!(
        wake_only.written, sweeping.written,
        "both executors must put the same bytes on the wire"
    );
}

#[test]
fn small_burst_same_items_under_both_executors() {
    check(5);
}

#[test]
fn large_burst_same_items_under_both_executors() {
    check(40);
}
