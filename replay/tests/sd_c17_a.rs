//! C17 demonstration: resuming a session must re-send the unacknowledged QoS>0 PUBLISH packets
//! in their original order.
//!
//! Build/run with the verification hook enabled:
//!   RUSTFLAGS="--cfg poster_verif" cargo test --offline --test seed_demo
//!
//! Without that flag the file compiles to an empty test binary, so a plain `cargo test` still works.
#![cfg(poster_verif)]

use futures::{executor::block_on, poll, AsyncRead, AsyncWrite};
use poster::{ConnectOpts, Context, PublishOpts, QoS};
use std::{
    collections::VecDeque,
    future::Future,
    io,
    pin::Pin,
    sync::{Arc, Mutex},
    task::{Context as TaskContext, Poll, Waker},
    time::Duration,
};

// ---------------------------------------------------------------------------------------------
// In-memory scripted transport.

#[derive(Default)]
struct PipeState {
    data: VecDeque<u8>,
    closed: bool,
    waker: Option<Waker>,
}

/// Read half handed to the client; the test pushes the broker's bytes into it.
#[derive(Clone, Default)]
struct BrokerToClient(Arc<Mutex<PipeState>>);

impl BrokerToClient {
    fn push(&self, bytes: &[u8]) {
        let mut state = self.0.lock().unwrap();
        state.data.extend(bytes.iter().copied());
        if let Some(waker) = state.waker.take() {
            waker.wake();
        }
    }

    fn close(&self) {
        let mut state = self.0.lock().unwrap();
        state.closed = true;
        if let Some(waker) = state.waker.take() {
            waker.wake();
        }
    }
}

impl AsyncRead for BrokerToClient {
    fn poll_read(
        self: Pin<&mut Self>,
        cx: &mut TaskContext<'_>,
        buf: &mut [u8],
    ) -> Poll<io::Result<usize>> {
        let mut state = self.0.lock().unwrap();
        if state.data.is_empty() {
            if state.closed {
                return Poll::Ready(Ok(0));
            }
            state.waker = Some(cx.waker().clone());
            return Poll::Pending;
        }

        let n = buf.len().min(state.data.len());
        for slot in buf.iter_mut().take(n) {
            *slot = state.data.pop_front().unwrap();
        }
        Poll::Ready(Ok(n))
    }
}

/// Write half handed to the client; the test inspects what the client has sent.
#[derive(Clone, Default)]
struct ClientToBroker(Arc<Mutex<Vec<u8>>>);

impl ClientToBroker {
    /// Takes everything written so far and splits it into MQTT packets.
    fn take_packets(&self) -> Vec<Vec<u8>> {
        let bytes = std::mem::take(&mut *self.0.lock().unwrap());
        let mut packets = Vec::new();
        let mut pos = 0;
        while pos < bytes.len() {
            // All packets in this test are shorter than 128 bytes: one byte of remaining length.
            let remaining = bytes[pos + 1] as usize;
            assert!(remaining < 128);
            packets.push(bytes[pos..pos + 2 + remaining].to_vec());
            pos += 2 + remaining;
        }
        packets
    }
}

impl AsyncWrite for ClientToBroker {
    fn poll_write(
        self: Pin<&mut Self>,
        _cx: &mut TaskContext<'_>,
        buf: &[u8],
    ) -> Poll<io::Result<usize>> {
        self.0.lock().unwrap().extend_from_slice(buf);
        Poll::Ready(Ok(buf.len()))
    }

    fn poll_flush(self: Pin<&mut Self>, _cx: &mut TaskContext<'_>) -> Poll<io::Result<()>> {
        Poll::Ready(Ok(()))
    }

    fn poll_close(self: Pin<&mut Self>, _cx: &mut TaskContext<'_>) -> Poll<io::Result<()>> {
        Poll::Ready(Ok(()))
    }
}

// ---------------------------------------------------------------------------------------------
// Helpers.

const CONNACK_OK: [u8; 5] = [0x20, 0x03, 0x00, 0x00, 0x00];

fn puback(id: u16) -> [u8; 4] {
    [0x40, 0x02, (id >> 8) as u8, id as u8]
}

/// QoS 1 PUBLISH, no properties: topic "t", given identifier and one byte of payload.
fn publish_qos1(id: u16, payload: u8, dup: bool) -> Vec<u8> {
    let hdr = 0x30 | 0x02 | if dup { 0x08 } else { 0x00 };
    vec![
        hdr,
        0x07,
        0x00,
        0x01,
        b't',
        (id >> 8) as u8,
        id as u8,
        0x00,
        payload,
    ]
}

fn is_connect(packet: &[u8]) -> bool {
    packet[0] >> 4 == 1
}

// ---------------------------------------------------------------------------------------------

#[test]
fn resumed_session_resends_unacked_publishes_in_original_order() {
    block_on(async {
        let (mut ctx, handle) = Context::<BrokerToClient, ClientToBroker>::new();

        // ---- First connection --------------------------------------------------------------
        let rx1 = BrokerToClient::default();
        let tx1 = ClientToBroker::default();
        ctx.set_up((rx1.clone(), tx1.clone()));

        rx1.push(&CONNACK_OK);
        ctx.connect(ConnectOpts::new().session_expiry_interval(Duration::from_secs(3600)))
            .await
            .expect("first connect");
        let sent = tx1.take_packets();
        assert_eq!(sent.len(), 1);
        assert!(is_connect(&sent[0]));

        // Three QoS 1 publishes; they get packet identifiers 1, 2, 3 in this order.
        let (mut h_a, mut h_b, mut h_c) = (handle.clone(), handle.clone(), handle.clone());
        let mut pub_a: Pin<Box<dyn Future<Output = _>>> = Box::pin(
            h_a.publish(
                PublishOpts::new()
                    .qos(QoS::AtLeastOnce)
                    .topic_name("t")
                    .payload(b"A"),
            ),
        );
        let mut pub_b: Pin<Box<dyn Future<Output = _>>> = Box::pin(
            h_b.publish(
                PublishOpts::new()
                    .qos(QoS::AtLeastOnce)
                    .topic_name("t")
                    .payload(b"B"),
            ),
        );
        let mut pub_c: Pin<Box<dyn Future<Output = _>>> = Box::pin(
            h_c.publish(
                PublishOpts::new()
                    .qos(QoS::AtLeastOnce)
                    .topic_name("t")
                    .payload(b"C"),
            ),
        );

        {
            let mut run = Box::pin(ctx.run());

            // Enqueue the three requests, then let the context serve them.
            assert!(poll!(pub_a.as_mut()).is_pending());
            assert!(poll!(pub_b.as_mut()).is_pending());
            assert!(poll!(pub_c.as_mut()).is_pending());
            assert!(poll!(run.as_mut()).is_pending());

            assert_eq!(
                tx1.take_packets(),
                vec![
                    publish_qos1(1, b'A', false),
                    publish_qos1(2, b'B', false),
                    publish_qos1(3, b'C', false),
                ],
                "first transmission"
            );

            // Only the first publish is acknowledged before the connection is lost.
            rx1.push(&puback(1));
            assert!(poll!(run.as_mut()).is_pending());
            assert!(matches!(poll!(pub_a.as_mut()), Poll::Ready(Ok(()))));
            assert!(poll!(pub_b.as_mut()).is_pending());
            assert!(poll!(pub_c.as_mut()).is_pending());

            // Connection drops.
            rx1.close();
            assert!(matches!(poll!(run.as_mut()), Poll::Ready(Err(_))));
            assert!(tx1.take_packets().is_empty());
        }

        // ---- Second connection: the session (expiry 3600 s) is resumed 1 s later -------------
        ctx.verif_mark_disconnected(1);

        let rx2 = BrokerToClient::default();
        let tx2 = ClientToBroker::default();
        ctx.set_up((rx2.clone(), tx2.clone()));

        rx2.push(&CONNACK_OK);
        ctx.connect(ConnectOpts::new().session_expiry_interval(Duration::from_secs(3600)))
            .await
            .expect("second connect");
        let sent = tx2.take_packets();
        assert_eq!(sent.len(), 1);
        assert!(is_connect(&sent[0]));

        {
            let mut run = Box::pin(ctx.run());
            assert!(poll!(run.as_mut()).is_pending());

            // Exactly the unfinished handshakes, in their original order, DUP=1.
            assert_eq!(
                tx2.take_packets(),
                vec![publish_qos1(2, b'B', true), publish_qos1(3, b'C', true)],
                "retransmission after session resumption"
            );

            // The original futures complete on the acknowledgements of the new connection.
            rx2.push(&puback(2));
            rx2.push(&puback(3));
            assert!(poll!(run.as_mut()).is_pending());
            assert!(matches!(poll!(pub_b.as_mut()), Poll::Ready(Ok(()))));
            assert!(matches!(poll!(pub_c.as_mut()), Poll::Ready(Ok(()))));
            assert!(tx2.take_packets().is_empty());
        }
    });
}
