//! Demonstration for property C17 (session resumption re-sends the unfinished outbound
//! handshakes in their original order).
//!
//! The session-resumption path of `Context::run` is reachable only through the
//! `verif_mark_disconnected` hook, which exists only with `--cfg poster_verif`, so run with
//!
//!   RUSTFLAGS="--cfg poster_verif" cargo test --offline --test seed_demo
//!
//! Without that cfg this file compiles to an empty test binary.
#![cfg(poster_verif)]

use futures::{
    executor::LocalPool,
    task::LocalSpawnExt,
    AsyncRead, AsyncWrite,
};
use poster::{error::MqttError, ConnectOpts, Context, ContextHandle, PublishOpts, QoS};
use std::{
    cell::RefCell,
    collections::VecDeque,
    future::Future,
    io,
    pin::Pin,
    rc::Rc,
    task::{Context as TaskCx, Poll, Waker},
    time::Duration,
};

// ---------------------------------------------------------------------------------------------
// In-memory scripted transport
// ---------------------------------------------------------------------------------------------

#[derive(Default)]
struct WireState {
    /// Bytes the "broker" has sent and the client has not read yet.
    inbound: VecDeque<u8>,
    /// The broker side hung up.
    eof: bool,
    /// Reader parked waiting for inbound bytes.
    waker: Option<Waker>,
    /// Everything the client wrote.
    outbound: Vec<u8>,
}

#[derive(Clone, Default)]
struct Wire(Rc<RefCell<WireState>>);

impl Wire {
    fn feed(&self, bytes: &[u8]) {
        let mut st = self.0.borrow_mut();
        st.inbound.extend(bytes.iter().copied());
        if let Some(w) = st.waker.take() {
            w.wake();
        }
    }

    fn hang_up(&self) {
        let mut st = self.0.borrow_mut();
        st.eof = true;
        if let Some(w) = st.waker.take() {
            w.wake();
        }
    }

    /// Packets written by the client so far, split on MQTT packet boundaries.
    fn written_packets(&self) -> Vec<Vec<u8>> {
        let st = self.0.borrow();
        let buf = &st.outbound;
        let mut packets = Vec::new();
        let mut pos = 0;
        while pos < buf.len() {
            // fixed header byte, then the remaining length as a variable byte integer
            let mut idx = pos + 1;
            let mut len = 0usize;
            let mut shift = 0;
            let mut complete = false;
            while idx < buf.len() {
                let b = buf[idx];
                idx += 1;
                len |= ((b & 0x7f) as usize) << shift;
                shift += 7;
                if b & 0x80 == 0 {
                    complete = true;
                    break;
                }
            }
            if !complete || idx + len > buf.len() {
                break; // partial packet, not (yet) fully written
            }
            packets.push(buf[pos..idx + len].to_vec());
            pos = idx + len;
        }
        packets
    }
}

struct Rx(Wire);
struct Tx(Wire);

impl AsyncRead for Rx {
    fn poll_read(
        self: Pin<&mut Self>,
        cx: &mut TaskCx<'_>,
        buf: &mut [u8],
    ) -> Poll<io::Result<usize>> {
        let mut st = (self.0).0.borrow_mut();
        if !st.inbound.is_empty() {
            let n = buf.len().min(st.inbound.len());
            for slot in buf.iter_mut().take(n) {
                *slot = st.inbound.pop_front().unwrap();
            }
            return Poll::Ready(Ok(n));
        }
        if st.eof {
            return Poll::Ready(Ok(0));
        }
        st.waker = Some(cx.waker().clone());
        Poll::Pending
    }
}

impl AsyncWrite for Tx {
    fn poll_write(
        self: Pin<&mut Self>,
        _cx: &mut TaskCx<'_>,
        buf: &[u8],
    ) -> Poll<io::Result<usize>> {
        (self.0).0.borrow_mut().outbound.extend_from_slice(buf);
        Poll::Ready(Ok(buf.len()))
    }

    fn poll_flush(self: Pin<&mut Self>, _cx: &mut TaskCx<'_>) -> Poll<io::Result<()>> {
        Poll::Ready(Ok(()))
    }

    fn poll_close(self: Pin<&mut Self>, _cx: &mut TaskCx<'_>) -> Poll<io::Result<()>> {
        Poll::Ready(Ok(()))
    }
}

// ---------------------------------------------------------------------------------------------
// Helpers
// ---------------------------------------------------------------------------------------------

/// Yields to the executor once.
struct YieldNow(bool);

impl Future for YieldNow {
    type Output = ();
    fn poll(mut self: Pin<&mut Self>, cx: &mut TaskCx<'_>) -> Poll<()> {
        if self.0 {
            Poll::Ready(())
        } else {
            self.0 = true;
            cx.waker().wake_by_ref();
            Poll::Pending
        }
    }
}

async fn wait_until(what: &str, mut cond: impl FnMut() -> bool) {
    for _ in 0..10_000 {
        if cond() {
            return;
        }
        YieldNow(false).await;
    }
    panic!("gave up waiting for: {what}");
}

const CONNACK_OK: [u8; 5] = [0x20, 0x03, 0x00, 0x00, 0x00];

fn puback(id: u16) -> [u8; 4] {
    [0x40, 0x02, (id >> 8) as u8, id as u8]
}

/// PUBLISH, QoS 1, topic "t", no properties, one payload byte.
fn publish_qos1(id: u16, payload: u8, dup: bool) -> Vec<u8> {
    vec![
        0x32 | if dup { 0x08 } else { 0x00 },
        0x07,
        0x00,
        0x01,
        b't',
        (id >> 8) as u8,
        id as u8,
        0x00,
        payload,
    ]
}

type Outcome = Rc<RefCell<Option<Result<(), MqttError>>>>;

fn spawn_publish(pool: &LocalPool, handle: &ContextHandle, payload: &'static [u8]) -> Outcome {
    let outcome: Outcome = Rc::new(RefCell::new(None));
    let slot = outcome.clone();
    let mut handle = handle.clone();
    pool.spawner()
        .spawn_local(async move {
            let res = handle
                .publish(
                    PublishOpts::new()
                        .topic_name("t")
                        .qos(QoS::AtLeastOnce)
                        .payload(payload),
                )
                .await;
            *slot.borrow_mut() = Some(res);
        })
        .unwrap();
    outcome
}

// ---------------------------------------------------------------------------------------------
// The scenario
// ---------------------------------------------------------------------------------------------

/// Three QoS 1 publishes (identifiers 1, 2, 3) are in flight, PUBACK 1 arrives, the connection
/// is lost. On resumption (session expiry one hour, lost one second ago) the client must re-send
/// PUBLISH 2 and then PUBLISH 3, both with DUP=1, and nothing else; the two pending publish()
/// futures complete on the PUBACKs received on the new connection.
#[test]
fn resumption_resends_unacknowledged_publishes_in_original_order() {
    let mut pool = LocalPool::new();
    let (mut ctx, handle) = Context::<Rx, Tx>::new();

    // ---- first connection -------------------------------------------------------------------
    let wire1 = Wire::default();
    ctx.set_up((Rx(wire1.clone()), Tx(wire1.clone())));
    wire1.feed(&CONNACK_OK);
    pool.run_until(ctx.connect(
        ConnectOpts::new()
            .client_identifier("seed")
            .session_expiry_interval(Duration::from_secs(3600)),
    ))
    .expect("first CONNECT");

    let first = spawn_publish(&pool, &handle, b"a");
    let second = spawn_publish(&pool, &handle, b"b");
    let third = spawn_publish(&pool, &handle, b"c");

    {
        let wire = wire1.clone();
        let first = first.clone();
        pool.spawner()
            .spawn_local(async move {
                // CONNECT + three PUBLISH packets
                wait_until("three PUBLISH packets on the first connection", || {
                    wire.written_packets().len() == 4
                })
                .await;
                wire.feed(&puback(1));
                wait_until("completion of the first publish()", || {
                    first.borrow().is_some()
                })
                .await;
                wire.hang_up();
            })
            .unwrap();
    }

    let run1 = pool.run_until(ctx.run());
    assert!(run1.is_err(), "run() must report the lost connection");

    let sent1 = wire1.written_packets();
    assert_eq!(
        &sent1[1..],
        &[
            publish_qos1(1, b'a', false),
            publish_qos1(2, b'b', false),
            publish_qos1(3, b'c', false)
        ],
        "traffic of the first connection"
    );
    assert!(matches!(*first.borrow(), Some(Ok(()))));
    assert!(second.borrow().is_none());
    assert!(third.borrow().is_none());

    // ---- resumption -------------------------------------------------------------------------
    ctx.verif_mark_disconnected(1);

    let wire2 = Wire::default();
    ctx.set_up((Rx(wire2.clone()), Tx(wire2.clone())));
    wire2.feed(&CONNACK_OK);
    pool.run_until(ctx.connect(
        ConnectOpts::new()
            .client_identifier("seed")
            .clean_start(false)
            .session_expiry_interval(Duration::from_secs(3600)),
    ))
    .expect("second CONNECT");

    let resent: Rc<RefCell<Vec<Vec<u8>>>> = Rc::new(RefCell::new(Vec::new()));
    {
        let wire = wire2.clone();
        let resent = resent.clone();
        let second = second.clone();
        let third = third.clone();
        pool.spawner()
            .spawn_local(async move {
                // CONNECT + two re-sent PUBLISH packets
                wait_until("two re-sent PUBLISH packets", || {
                    wire.written_packets().len() >= 3
                })
                .await;
                *resent.borrow_mut() = wire.written_packets()[1..].to_vec();

                wire.feed(&puback(2));
                wire.feed(&puback(3));
                wait_until("completion of the pending publish() futures", || {
                    second.borrow().is_some() && third.borrow().is_some()
                })
                .await;
                wire.hang_up();
            })
            .unwrap();
    }

    let _ = pool.run_until(ctx.run());

    assert_eq!(
        *resent.borrow(),
        vec![publish_qos1(2, b'b', true), publish_qos1(3, b'c', true)],
        "unacknowledged publishes must be re-sent in their original order with DUP=1"
    );
    assert_eq!(
        wire2.written_packets().len(),
        3,
        "nothing but CONNECT and the two re-sent publishes is written"
    );
    assert!(matches!(*second.borrow(), Some(Ok(()))));
    assert!(matches!(*third.borrow(), Some(Ok(()))));
}
