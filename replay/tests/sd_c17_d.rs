//! Demonstration for property C17 (session resumption re-sends exactly the unfinished
//! outbound handshakes).
//!
//! The session-resumption path of `Context::run` is reachable only through the
//! `verif_mark_disconnected` hook, which is compiled with `--cfg poster_verif`, hence:
//!
//! RUSTFLAGS="--cfg poster_verif" cargo test --offline --test seed_demo
//!
//! History played against a scripted in-memory broker:
//!   1. QoS 2 publish (id 1)  -> broker answers PUBREC with a failure reason (0x87);
//!                               publish() fails with PubrecError, the exchange is over.
//!   2. QoS 1 publish (id 2)  -> no answer, the connection is lost.
//!   3. Reconnect, session not expired -> the only thing to re-send is PUBLISH id 2 (DUP=1);
//!      the PUBACK for it on the new connection completes the original publish() future.

#[cfg(not(poster_verif))]
#[test]
#[ignore = "needs RUSTFLAGS=\"--cfg poster_verif\" (Context::verif_mark_disconnected)"]
fn resume_does_not_resend_a_publish_rejected_by_pubrec() {}

#[cfg(poster_verif)]
mod demo {
    use futures::{
        future::{self, Either},
        AsyncRead, AsyncWrite,
    };
    use poster::{error::MqttError, ConnectOpts, Context, PublishOpts, QoS};
    use std::{
        cell::RefCell,
        collections::VecDeque,
        future::Future,
        io,
        pin::Pin,
        rc::Rc,
        task::{Context as TaskCx, Poll, Waker},
        time::Duration,
    };

    /// What the scripted broker does with a packet written by the client.
    enum Reaction {
        Nothing,
        Reply(Vec<u8>),
        Close,
    }

    struct Wire {
        /// Bytes waiting to be read by the client.
        inbound: VecDeque<u8>,
        closed: bool,
        reader: Option<Waker>,
        /// Bytes written by the client, not yet forming a whole packet.
        partial: Vec<u8>,
        /// Whole packets written by the client.
        written: Vec<Vec<u8>>,
        script: Box<dyn FnMut(&[u8]) -> Reaction>,
    }

    impl Wire {
        fn new(script: impl FnMut(&[u8]) -> Reaction + 'static) -> Rc<RefCell<Wire>> {
            Rc::new(RefCell::new(Wire {
                inbound: VecDeque::new(),
                closed: false,
                reader: None,
                partial: Vec::new(),
                written: Vec::new(),
                script: Box::new(script),
            }))
        }
    }

    struct Rx(Rc<RefCell<Wire>>);
    struct Tx(Rc<RefCell<Wire>>);

    impl AsyncRead for Rx {
        fn poll_read(
            self: Pin<&mut Self>,
            cx: &mut TaskCx<'_>,
            buf: &mut [u8],
        ) -> Poll<io::Result<usize>> {
            let mut wire = self.0.borrow_mut();
            if wire.inbound.is_empty() {
                if wire.closed {
                    return Poll::Ready(Ok(0));
                }
                wire.reader = Some(cx.waker().clone());
                return Poll::Pending;
            }
            let n = buf.len().min(wire.inbound.len());
            for slot in buf.iter_mut().take(n) {
                *slot = wire.inbound.pop_front().unwrap();
            }
            Poll::Ready(Ok(n))
        }
    }

    /// Length of the first whole MQTT packet in `bytes`, if there is one.
    fn whole_packet_len(bytes: &[u8]) -> Option<usize> {
        let mut remaining = 0usize;
        let mut idx = 1;
        loop {
            let byte = *bytes.get(idx)?;
            remaining |= ((byte & 0x7f) as usize) << (7 * (idx - 1));
            idx += 1;
            if byte & 0x80 == 0 {
                break;
            }
        }
        (bytes.len() >= idx + remaining).then_some(idx + remaining)
    }

    impl AsyncWrite for Tx {
        fn poll_write(
            self: Pin<&mut Self>,
            _: &mut TaskCx<'_>,
            buf: &[u8],
        ) -> Poll<io::Result<usize>> {
            let mut guard = self.0.borrow_mut();
            let wire = &mut *guard;
            wire.partial.extend_from_slice(buf);
            while let Some(len) = whole_packet_len(&wire.partial) {
                let packet: Vec<u8> = wire.partial.drain(..len).collect();
                match (wire.script)(&packet) {
                    Reaction::Nothing => {}
                    Reaction::Reply(bytes) => wire.inbound.extend(bytes),
                    Reaction::Close => wire.closed = true,
                }
                wire.written.push(packet);
                if let Some(waker) = wire.reader.take() {
                    waker.wake();
                }
            }
            Poll::Ready(Ok(buf.len()))
        }

        fn poll_flush(self: Pin<&mut Self>, _: &mut TaskCx<'_>) -> Poll<io::Result<()>> {
            Poll::Ready(Ok(()))
        }

        fn poll_close(self: Pin<&mut Self>, _: &mut TaskCx<'_>) -> Poll<io::Result<()>> {
            Poll::Ready(Ok(()))
        }
    }

    const CONNACK: [u8; 5] = [0x20, 0x03, 0x00, 0x00, 0x00];

    fn packet_type(packet: &[u8]) -> u8 {
        packet[0] >> 4
    }

    /// Packet identifier of a QoS>0 PUBLISH (remaining length below 128 in this test).
    fn publish_id(packet: &[u8]) -> u16 {
        assert_eq!(packet_type(packet), 3);
        assert!(packet[1] < 0x80);
        let topic_len = u16::from_be_bytes([packet[2], packet[3]]) as usize;
        u16::from_be_bytes([packet[4 + topic_len], packet[5 + topic_len]])
    }

    #[test]
    fn resume_does_not_resend_a_publish_rejected_by_pubrec() {
        futures::executor::block_on(async {
            let (mut ctx, handle) = Context::<Rx, Tx>::new();

            // Results of the two publish() calls, in order.
            let outcomes: Rc<RefCell<Vec<Result<(), MqttError>>>> = Rc::new(RefCell::new(vec![]));

            let mut client: Pin<Box<dyn Future<Output = ()>>> = Box::pin({
                let outcomes = outcomes.clone();
                let mut handle = handle.clone();
                async move {
                    let first = handle
                        .publish(
                            PublishOpts::new()
                                .qos(QoS::ExactlyOnce)
                                .topic_name("a")
                                .payload(b"first"),
                        )
                        .await;
                    outcomes.borrow_mut().push(first);

                    let second = handle
                        .publish(
                            PublishOpts::new()
                                .qos(QoS::AtLeastOnce)
                                .topic_name("b")
                                .payload(b"second"),
                        )
                        .await;
                    outcomes.borrow_mut().push(second);
                }
            });

            // ---- First connection -------------------------------------------------------
            let wire1 = Wire::new(|packet| match packet_type(packet) {
                1 => Reaction::Reply(CONNACK.to_vec()),
                3 => match publish_id(packet) {
                    // PUBREC id 1, reason 0x87 (not authorized): the exchange ends here.
                    1 => Reaction::Reply(vec![0x50, 0x03, 0x00, 0x01, 0x87]),
                    // The connection is lost before the PUBACK of id 2.
                    _ => Reaction::Close,
                },
                _ => Reaction::Nothing,
            });

            ctx.set_up((Rx(wire1.clone()), Tx(wire1.clone())));
            ctx.connect(
                ConnectOpts::new()
                    .client_identifier("demo")
                    .session_expiry_interval(Duration::from_secs(3600)),
            )
            .await
            .expect("first connect");

            match future::select(Box::pin(ctx.run()), &mut client).await {
                Either::Left((result, _)) => {
                    assert!(result.is_err(), "run() ends with the lost connection")
                }
                Either::Right(_) => panic!("the second publish cannot complete yet"),
            }

            let first_publish: Vec<u8> = {
                let wire = wire1.borrow();
                let publishes: Vec<&Vec<u8>> = wire
                    .written
                    .iter()
                    .filter(|packet| packet_type(packet) == 3)
                    .collect();
                assert_eq!(publishes.len(), 2, "both PUBLISH packets went out");
                assert_eq!(publish_id(publishes[0]), 1);
                assert_eq!(publish_id(publishes[1]), 2);
                assert_eq!(publishes[1][0] & 0x08, 0, "first transmission has DUP=0");
                publishes[1].clone()
            };

            {
                let outcomes = outcomes.borrow();
                assert_eq!(outcomes.len(), 1, "only the rejected publish has completed");
                assert!(
                    matches!(outcomes[0], Err(MqttError::PubrecError(_))),
                    "the QoS 2 publish fails with the PUBREC reason"
                );
            }

            // ---- Second connection, session still alive ------------------------------------
            ctx.verif_mark_disconnected(1);

            let wire2 = Wire::new(|packet| match packet_type(packet) {
                1 => Reaction::Reply(CONNACK.to_vec()),
                3 => match publish_id(packet) {
                    2 => Reaction::Reply(vec![0x40, 0x02, 0x00, 0x02]),
                    _ => Reaction::Nothing,
                },
                _ => Reaction::Nothing,
            });

            ctx.set_up((Rx(wire2.clone()), Tx(wire2.clone())));
            ctx.connect(
                ConnectOpts::new()
                    .client_identifier("demo")
                    .clean_start(false)
                    .session_expiry_interval(Duration::from_secs(3600)),
            )
            .await
            .expect("second connect");

            match future::select(Box::pin(ctx.run()), &mut client).await {
                Either::Left((result, _)) => panic!("run() ended early: {:?}", result.err()),
                Either::Right(_) => {}
            }

            {
                let outcomes = outcomes.borrow();
                assert_eq!(outcomes.len(), 2);
                assert!(
                    outcomes[1].is_ok(),
                    "the pending publish completes on the PUBACK of the new connection"
                );
            }

            // Everything written on the new connection after CONNECT is the resume prologue.
            let wire = wire2.borrow();
            assert_eq!(packet_type(&wire.written[0]), 1);
            let resent: Vec<&Vec<u8>> = wire.written[1..].iter().collect();

            let mut expected = first_publish;
            expected[0] |= 0x08; // DUP

            assert_eq!(
                resent,
                vec![&expected],
                "exactly the unacknowledged PUBLISH (id 2, DUP=1) is re-sent; \
                 the PUBLISH that got a PUBREC (id 1) is finished and must not be"
            );
        });
    }
}
