//! Demonstration for property C17 (session resumption).
//!
//! The session-resumption path of `Context::run` is only reachable through the
//! `verif_mark_disconnected` hook, which exists only with `--cfg poster_verif`, so run with
//!
//!   RUSTFLAGS="--cfg poster_verif" cargo test --offline --test seed_demo
//!
//! Scenario: the client asks for a one hour session, the server answers with a CONNACK that
//! carries Session Expiry Interval = 0 (the server overrides the request: the session ends as
//! soon as the network connection does). A QoS 1 publish is left unacknowledged, the connection
//! is lost, and the client connects again five seconds later. The session has expired, so
//! nothing may be re-sent and the abandoned publish() must fail instead of hanging.
#![cfg(poster_verif)]

use futures::{executor::block_on, poll, AsyncRead, AsyncWrite};
use poster::{ConnectOpts, Context, PublishOpts, QoS};
use std::{
    cell::RefCell,
    collections::VecDeque,
    io,
    pin::Pin,
    rc::Rc,
    task::{Context as TaskContext, Poll, Waker},
    time::Duration,
};

#[derive(Default)]
struct RxState {
    data: VecDeque<u8>,
    closed: bool,
    waker: Option<Waker>,
}

#[derive(Clone, Default)]
struct ScriptedRx(Rc<RefCell<RxState>>);

impl ScriptedRx {
    fn feed(&self, bytes: &[u8]) {
        let mut state = self.0.borrow_mut();
        state.data.extend(bytes.iter().copied());
        if let Some(waker) = state.waker.take() {
            waker.wake();
        }
    }

    fn close(&self) {
        let mut state = self.0.borrow_mut();
        state.closed = true;
        if let Some(waker) = state.waker.take() {
            waker.wake();
        }
    }
}

impl AsyncRead for ScriptedRx {
    fn poll_read(
        self: Pin<&mut Self>,
        cx: &mut TaskContext<'_>,
        buf: &mut [u8],
    ) -> Poll<io::Result<usize>> {
        let mut state = self.0.borrow_mut();
        if state.data.is_empty() {
            if state.closed {
                return Poll::Ready(Ok(0));
            }
            state.waker = Some(cx.waker().clone());
            return Poll::Pending;
        }

        let mut n = 0;
        while n < buf.len() {
            match state.data.pop_front() {
                Some(byte) => {
                    buf[n] = byte;
                    n += 1;
                }
                None => break,
            }
        }
        Poll::Ready(Ok(n))
    }
}

#[derive(Clone, Default)]
struct RecordingTx(Rc<RefCell<Vec<u8>>>);

impl RecordingTx {
    fn written(&self) -> Vec<u8> {
        self.0.borrow().clone()
    }
}

impl AsyncWrite for RecordingTx {
    fn poll_write(
        self: Pin<&mut Self>,
        _: &mut TaskContext<'_>,
        buf: &[u8],
    ) -> Poll<io::Result<usize>> {
        self.0.borrow_mut().extend_from_slice(buf);
        Poll::Ready(Ok(buf.len()))
    }

    fn poll_flush(self: Pin<&mut Self>, _: &mut TaskContext<'_>) -> Poll<io::Result<()>> {
        Poll::Ready(Ok(()))
    }

    fn poll_close(self: Pin<&mut Self>, _: &mut TaskContext<'_>) -> Poll<io::Result<()>> {
        Poll::Ready(Ok(()))
    }
}

/// Splits a byte stream into MQTT packets (remaining length < 128 is enough here).
fn split_packets(mut bytes: &[u8]) -> Vec<Vec<u8>> {
    let mut packets = Vec::new();
    while !bytes.is_empty() {
        assert!(bytes.len() >= 2 && bytes[1] < 128, "unexpected framing");
        let len = 2 + bytes[1] as usize;
        packets.push(bytes[..len].to_vec());
        bytes = &bytes[len..];
    }
    packets
}

// CONNACK, session present = 0, reason = success, properties: Session Expiry Interval = 0.
const CONNACK_EXPIRY_ZERO: [u8; 10] = [0x20, 0x08, 0x00, 0x00, 0x05, 0x11, 0x00, 0x00, 0x00, 0x00];

#[test]
fn session_ended_by_the_server_is_not_resumed() {
    block_on(async {
        let (mut ctx, handle) = Context::<ScriptedRx, RecordingTx>::new();

        // ---- first connection -------------------------------------------------------------
        let rx1 = ScriptedRx::default();
        let tx1 = RecordingTx::default();
        rx1.feed(&CONNACK_EXPIRY_ZERO);

        ctx.set_up((rx1.clone(), tx1.clone()));
        ctx.connect(ConnectOpts::new().session_expiry_interval(Duration::from_secs(3600)))
            .await
            .expect("first connect");

        let connect_len = tx1.written().len();

        let mut publisher = handle.clone();
        let mut publish = Box::pin(async move {
            publisher
                .publish(
                    PublishOpts::new()
                        .topic_name("a/b")
                        .qos(QoS::AtLeastOnce)
                        .payload(b"hello"),
                )
                .await
        });

        let original_publish;
        {
            let mut run = Box::pin(ctx.run());

            assert!(poll!(&mut publish).is_pending());
            for _ in 0..8 {
                assert!(poll!(&mut run).is_pending());
            }

            let packets = split_packets(&tx1.written()[connect_len..]);
            assert_eq!(packets.len(), 1, "exactly the PUBLISH was written");
            assert_eq!(packets[0][0], 0x32, "QoS 1 PUBLISH, DUP=0");
            original_publish = packets[0].clone();

            // No PUBACK: the network connection is lost.
            rx1.close();
            let mut result = None;
            for _ in 0..8 {
                if let Poll::Ready(res) = poll!(&mut run) {
                    result = Some(res);
                    break;
                }
            }
            assert!(
                result.expect("run() ends when the socket is closed").is_err(),
                "socket closed is an error"
            );
        }
        assert!(poll!(&mut publish).is_pending());

        // ---- second connection, five seconds later ------------------------------------------
        ctx.verif_mark_disconnected(5);

        let rx2 = ScriptedRx::default();
        let tx2 = RecordingTx::default();
        rx2.feed(&CONNACK_EXPIRY_ZERO);

        ctx.set_up((rx2.clone(), tx2.clone()));
        ctx.connect(ConnectOpts::new().session_expiry_interval(Duration::from_secs(3600)))
            .await
            .expect("second connect");

        let connect_len = tx2.written().len();

        {
            let mut run = Box::pin(ctx.run());
            for _ in 0..8 {
                assert!(poll!(&mut run).is_pending());
            }

            // The server ended the session at disconnection (interval 0): nothing is re-sent.
            let resent = split_packets(&tx2.written()[connect_len..]);
            if let Some(first) = resent.first() {
                let mut expected_dup = original_publish.clone();
                expected_dup[0] |= 0x08;
                panic!(
                    "expired session was resumed: {} packet(s) re-sent, first = {:02x?} \
                     (the original PUBLISH with DUP=1 would be {:02x?})",
                    resent.len(),
                    first,
                    expected_dup
                );
            }

            // ...and the abandoned publish() fails instead of hanging.
            match poll!(&mut publish) {
                Poll::Ready(res) => assert!(res.is_err(), "abandoned publish must fail"),
                Poll::Pending => panic!("abandoned publish() hangs after the session expired"),
            }
        }
    });
}
