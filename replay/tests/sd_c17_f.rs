// Build with RUSTFLAGS="--cfg poster_verif" (the resume path is reachable only through the
// verification hook Context::verif_mark_disconnected).
//
// History: QoS 2 publish, PUBREC, PUBREL sent, the broker repeats the PUBREC, connection lost
// before PUBCOMP. On resume the PUBREL must be sent again and the original publish() future
// must complete on the PUBCOMP of the new connection.

use futures::{poll, AsyncRead, AsyncWrite};
use poster::{ConnectOpts, Context, PublishOpts, QoS};
use std::{
    cell::RefCell,
    collections::VecDeque,
    io,
    pin::Pin,
    rc::Rc,
    task::{Context as TaskCx, Poll, Waker},
    time::Duration,
};

#[derive(Default)]
struct Pipe {
    data: VecDeque<u8>,
    closed: bool,
    waker: Option<Waker>,
}

#[derive(Clone, Default)]
struct End(Rc<RefCell<Pipe>>);

impl End {
    fn feed(&self, bytes: &[u8]) {
        let mut p = self.0.borrow_mut();
        p.data.extend(bytes.iter().copied());
        if let Some(w) = p.waker.take() {
            w.wake();
        }
    }
    fn close(&self) {
        let mut p = self.0.borrow_mut();
        p.closed = true;
        if let Some(w) = p.waker.take() {
            w.wake();
        }
    }
    fn take(&self) -> Vec<u8> {
        self.0.borrow_mut().data.drain(..).collect()
    }
}

impl AsyncRead for End {
    fn poll_read(
        self: Pin<&mut Self>,
        cx: &mut TaskCx<'_>,
        buf: &mut [u8],
    ) -> Poll<io::Result<usize>> {
        let mut p = self.0.borrow_mut();
        if p.data.is_empty() {
            if p.closed {
                return Poll::Ready(Ok(0));
            }
            p.waker = Some(cx.waker().clone());
            return Poll::Pending;
        }
        let n = buf.len().min(p.data.len());
        for slot in buf.iter_mut().take(n) {
            *slot = p.data.pop_front().unwrap();
        }
        Poll::Ready(Ok(n))
    }
}

impl AsyncWrite for End {
    fn poll_write(
        self: Pin<&mut Self>,
        _: &mut TaskCx<'_>,
        buf: &[u8],
    ) -> Poll<io::Result<usize>> {
        self.0.borrow_mut().data.extend(buf.iter().copied());
        Poll::Ready(Ok(buf.len()))
    }
    fn poll_flush(self: Pin<&mut Self>, _: &mut TaskCx<'_>) -> Poll<io::Result<()>> {
        Poll::Ready(Ok(()))
    }
    fn poll_close(self: Pin<&mut Self>, _: &mut TaskCx<'_>) -> Poll<io::Result<()>> {
        Poll::Ready(Ok(()))
    }
}

const CONNACK: [u8; 5] = [0x20, 0x03, 0x00, 0x00, 0x00];
const CONNACK_SESSION_PRESENT: [u8; 5] = [0x20, 0x03, 0x01, 0x00, 0x00];
const PUBREC_1: [u8; 4] = [0x50, 0x02, 0x00, 0x01];
const PUBREL_1: [u8; 4] = [0x62, 0x02, 0x00, 0x01];
const PUBCOMP_1: [u8; 4] = [0x70, 0x02, 0x00, 0x01];

#[test]
fn pubrel_is_sent_again_on_resume_after_a_repeated_pubrec() {
    futures::executor::block_on(async {
        let (mut ctx, handle) = Context::<End, End>::new();

        // ---- first connection
        let (to_client, from_client) = (End::default(), End::default());
        ctx.set_up((to_client.clone(), from_client.clone()));
        to_client.feed(&CONNACK);
        ctx.connect(
            ConnectOpts::new()
                .client_identifier("seed")
                .session_expiry_interval(Duration::from_secs(3600)),
        )
        .await
        .unwrap();
        from_client.take(); // CONNECT

        let mut publisher = handle.clone();
        let mut publish = Box::pin(async move {
            publisher
                .publish(
                    PublishOpts::new()
                        .qos(QoS::ExactlyOnce)
                        .topic_name("a/b")
                        .payload(b"hello"),
                )
                .await
        });

        {
            let mut run = Box::pin(ctx.run());

            assert!(poll!(&mut publish).is_pending());
            assert!(poll!(&mut run).is_pending());
            let sent = from_client.take();
            assert_eq!(sent[0], 0x34, "QoS 2 PUBLISH, DUP=0: {sent:?}");

            to_client.feed(&PUBREC_1);
            assert!(poll!(&mut run).is_pending());
            assert!(poll!(&mut publish).is_pending()); // queues the PUBREL
            assert!(poll!(&mut run).is_pending());
            assert_eq!(from_client.take(), PUBREL_1);

            // The broker repeats the PUBREC (allowed; it carries no new information).
            to_client.feed(&PUBREC_1);
            assert!(poll!(&mut run).is_pending());
            assert!(poll!(&mut publish).is_pending());
            assert!(from_client.take().is_empty());

            // Connection lost before the PUBCOMP.
            to_client.close();
            assert!(matches!(poll!(&mut run), Poll::Ready(Err(_))));
        }

        // ---- second connection, session still alive
        ctx.verif_mark_disconnected(1);
        let (to_client, from_client) = (End::default(), End::default());
        ctx.set_up((to_client.clone(), from_client.clone()));
        to_client.feed(&CONNACK_SESSION_PRESENT);
        ctx.connect(
            ConnectOpts::new()
                .client_identifier("seed")
                .clean_start(false)
                .session_expiry_interval(Duration::from_secs(3600)),
        )
        .await
        .unwrap();
        from_client.take(); // CONNECT

        let mut run = Box::pin(ctx.run());
        assert!(poll!(&mut run).is_pending());
        assert_eq!(
            from_client.take(),
            PUBREL_1,
            "the unfinished PUBREL must be sent again on resume"
        );

        to_client.feed(&PUBCOMP_1);
        assert!(poll!(&mut run).is_pending());
        match poll!(&mut publish) {
            Poll::Ready(res) => res.unwrap(),
            Poll::Pending => panic!("publish() must complete on the PUBCOMP of the new connection"),
        }
    });
}
