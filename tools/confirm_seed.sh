#!/bin/sh
# usage: tools/confirm_seed.sh <worktree> <seed-id> <property>
# Confirms a seeded change in a scratch worktree (suite passes with it; demo fails with it and passes
# without it) and stores it under /verif/seeded/<seed-id>/.
WT="$1"; ID="$2"; PID="$3"
export CARGO_TARGET_DIR="$WT/target" CARGO_NET_OFFLINE=true RUSTFLAGS="--cfg poster_verif"
cd "$WT" || exit 9
git diff -- src > /tmp/confirm_$ID.diff
[ -s /tmp/confirm_$ID.diff ] || { echo "no source change"; exit 9; }
S1=$(cargo test --offline --lib 2>&1 | grep -E "^test result" | head -1)
S2=$(cargo test --offline --doc 2>&1 | grep -E "^test result" | head -1)
D1=$(cargo test --offline --test seed_demo 2>&1 | grep -E "^test result" | head -1)
# (no `git stash`: the stash is shared by all worktrees of the repository and races with other users of it)
git apply -R /tmp/confirm_$ID.diff || { echo "cannot revert the change"; exit 9; }
D2=$(cargo test --offline --test seed_demo 2>&1 | grep -E "^test result" | head -1)
git apply /tmp/confirm_$ID.diff || { echo "cannot re-apply the change"; exit 9; }
echo "suite(lib) with change : $S1"; echo "suite(doc) with change : $S2"; echo "demo with change       : $D1"; echo "demo without change    : $D2"
case "$S1" in *"0 failed"*) ;; *) echo "NOT CONFIRMED: suite"; exit 1;; esac
case "$D1" in *FAILED*) ;; *) echo "NOT CONFIRMED: demo does not fail with the change"; exit 1;; esac
case "$D2" in *"ok."*) ;; *) echo "NOT CONFIRMED: demo does not pass without the change"; exit 1;; esac
OUT=/verif/seeded/$ID; mkdir -p $OUT
cp /tmp/confirm_$ID.diff $OUT/patch.diff
cp tests/seed_demo.rs $OUT/seed_demo.rs
[ -f SEED_NOTES.md ] && cp SEED_NOTES.md $OUT/SEED_NOTES.md
python3 - "$OUT" "$PID" "$S1" "$S2" "$D1" "$D2" <<'PY'
import json,sys
out,pid,s1,s2,d1,d2=sys.argv[1:7]
notes=open(out+'/SEED_NOTES.md').read() if __import__('os').path.exists(out+'/SEED_NOTES.md') else ''
json.dump({'property':pid,'needs_to_manifest':'see SEED_NOTES.md','confirmed':{'suite_lib_with_change':s1,'suite_doc_with_change':s2,'demo_with_change':d1,'demo_without_change':d2},
 'ran':['cargo test --offline --lib','cargo test --offline --doc','cargo test --offline --test seed_demo (with change)','git apply -R <diff>; cargo test --offline --test seed_demo (without change)'],
 'origin':'independent sub-agent given only the property text and a scratch worktree'},open(out+'/meta.json','w'),indent=1)
PY
echo "stored in $OUT"
