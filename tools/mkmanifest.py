#!/usr/bin/env python3
"""Regenerates /verif/MANIFEST.json from the table below (single source of truth for the claims)."""
import json
import os

ROOT = os.path.dirname(os.path.dirname(os.path.abspath(__file__)))

COMMON_NOTE = ('Trusted: assumed contracts for bytes/futures channels/write_all/clock/atomics (standins/verus/ext.vrs, '
               'units/inc/*_specs.vrs: every external_body/uninterp/assume_specification is listed in evidence.assumptions); '
               'the stated extraction rewrites (DESIGN.md section 3); the futures::select! loop of Context::run '
               '(handlers run one at a time to completion); Verus/Z3/rustc. Interleavings are reduced to sequences of handler calls by that assumption. '
               'Bounded stand-ins that run beside the proof and are never counted as proved (evidence: bounded_native_replays): scenario replays of the property against the real crate and, for C05 C06 C10 C11 C15, '
               'the model-based random-history replay replay/tests/h_model.rs (quick: 1500 histories x 40 steps + 20 x 1500 steps; thorough: x10); for C07 C08 C09 its inbound counterpart replay/tests/h_inbound.rs (1000 x 40 + 10 x 1500 steps); for C17 replay/tests/h_resume.rs (2000 histories ending in a lost connection and a resumed session); they decide only when the deductive check cannot read changed code (exit 2) or as a second opinion.')

CLAIMS = {
    'C01': ('proof', 'Verus discharges, on the real ByteLen/Encode/SizedPacket/PacketID impls of every outbound packet (CONNECT, AUTH, PUBLISH, SUBSCRIBE, UNSUBSCRIBE, DISCONNECT, PINGREQ, PUBACK/PUBREC/PUBREL/PUBCOMP) and of every primitive and property '
            'they are built from, extracted from the working tree, for ALL field values with no bound: the bytes appended to the buffer are exactly the image of the struct under a layout function written from the MQTT 5 standard '
            '(field order, flag bit positions, property identifiers, absent optionals omitted), the remaining-length and property-length fields equal the size of what follows, packet_len() equals the number of bytes written and nothing before the packet is touched; '
            'the derive_builder validate functions refuse exactly the requests that lack a mandatory part. In unit handle/context: each request becomes one message, written by one write() call as a whole packet, in submission order. '
            'Unit opts: every public method of ConnectOpts/AuthOpts/PublishOpts/SubscribeOpts/SubscriptionOpts/UnsubscribeOpts/DisconnectOpts (71 functions of client/opts.rs) sets exactly the one builder slot it documents to the wrapper of the caller\'s value '
            '(whole-builder postcondition, documented panic conditions as preconditions), subscription option bits at the standard\'s positions, and build() is Ok exactly when the mandatory parts are there and carries every slot into the Tx struct (over the assumed derive_builder build contract). '
            'The contracts of the option stand-ins used by unit handle are the same text (//@splice) and are proved in unit opts. '
            'Unit roundtrip: pure lemmas that the encoding spec and the parsing spec agree (the real decoder run on the bytes the encoder is proved to write returns the supplied values) for primitives, all property wrappers, property sections, PUBACK family, DISCONNECT, AUTH, PUBLISH.', '5 C01'),
    'C02': ('proof', 'Verus discharges, on the real TryDecode impls of all eleven inbound packet types, of RxPacket::try_decode (dispatcher) and of every primitive/property decoder, extracted from the working tree, for ALL byte strings with no bound, '
            'two contracts written from the standard: soundness (an accepted packet has exactly the field values the bytes denote: fixed-header bits, identifiers, reason codes, every property by identifier, repeated user properties and '
            'subscription identifiers all kept in order, absent properties read as the standard defaults) and acceptance (every well-formed packet, incl. the shortened PUBACK-family/AUTH/DISCONNECT forms, any legal property set in any order, MUST decode Ok), '
            'with concrete well-formed example packets proved to satisfy the acceptance precondition (non-vacuity). '
            'Unit accessors: all 67 value accessors of client/rsp.rs and client/error.rs and the 5 TryFrom / the From conversions return exactly the corresponding field of the wrapped packet with the documented conversion (strings under wf(): present string fields are UTF-8, which the decoders\' postconditions are proved to establish). '
            'NOT under contract: the iterator-based methods of UserProperties (core/collections.rs); the replay suite c02_decode samples them natively (bounded, not counted as proved).', '5 C02'),
    'C04': ('proof', 'Panic-freedom half: every implicit obligation Verus generates (index in range, unwrap/expect on Some/Ok, slice/split_to/advance within the buffer, arithmetic overflow with overflow checks ON, unreachable!/assert! reachability, callee preconditions) '
            'on every function extracted in every unit (decoders for arbitrary bytes, framing layer for arbitrary chunkings, context handlers for arbitrary packets in any session state, connect/authorize/run arms for any first inbound item) is discharged, no bound. '
            'No-stall half: only the per-call statement of C03 (a complete buffered frame is returned, never Pending); termination/liveness of the run loop is not proved. '
            'Exempt: the documented assertion on subscription-identifier support (its expect is dropped by a stated substitution).', '5 C04'),
    'C03': ('proof', 'Verus discharges, on RxPacketStream::poll_next extracted from the working tree (with the stated rewrites W12/W14/W15/W16), for ALL buffer states and chunkings, no bound: '
            'a representation invariant (the unread bytes are the most recently delivered ones, a known packet length is the frame length of their head) is preserved; a returned packet is the decoding of exactly '
            'the next frame of the delivered byte stream and the rest stays buffered; Pending is returned only if the reader itself answered Pending in this call, with no complete packet buffered; '
            'end-of-stream only if the reader ended or the length field is malformed; the reader is never given an empty buffer; the recursion is partial-correctness only (termination not proved).', '5 C03'),
    'C16': ('proof', 'Per-call contracts of the two hand-written poll functions only: RxPacketStream::poll_next and SubscribeStream::poll_next return Pending only when their inner source answered Pending in the same call '
            '(which registered the waker) and then leave the abstract state (consumed boundary, buffered queue) unchanged. The executor-equivalence statement itself, select! re-arming and channel wakeups are assumed (DESIGN.md section 6).', '5 C16'),
    'C05': ('proof', 'Verus discharges, on handle_message/handle_packet and the ContextHandle operations extracted from the working tree, that a pending entry is registered under the '
            'action id of its own channel, that an acknowledgement removes exactly the first pending entry with its (type, id) key and nothing else, '
            '(as a call-site precondition of oneshot::Sender::send) that an acknowledgement is only ever sent to the operation keyed by it, and that the operation is completed with exactly the acknowledgement received (content unchanged).', '5 C05'),
    'C06': ('proof', 'Verus discharges, on ContextHandle::publish extracted from the working tree, the whole handshake as a postcondition over the messages handed to the context '
            'and the (prophesied) outcomes of their channels: QoS0 = one FireAndForget PUBLISH; QoS1 = one PUBLISH (DUP=0,QoS bits 01) keyed by PUBACK(id), result by reason threshold 0x80; '
            'QoS2 = PUBLISH keyed by PUBREC(id), then exactly one PUBREL with the PUBREC id iff reason < 0x80, result by PUBCOMP; handle_message adds: written once as given, stored copy has DUP=1.', '5 C06'),
    'C07': ('proof', 'Verus discharges: the stream sender is registered with its subscription identifier before the SUBSCRIBE is written (handle_message); an inbound PUBLISH is pushed, intact, '
            'onto exactly the first registered stream whose key is its subscription identifier and onto no other (whole-queue postcondition of handle_packet, misdelivery is a call-site precondition); '
            'a dead stream is dropped alone; unsuback/others never touch streams; SubscribeStream::poll_next yields the buffered messages in order and ends only when the channel is closed and drained; '
            'subscribe() returns the receiving end of the registered sender.', '5 C07'),
    'C08': ('proof', 'Verus discharges a whole-wire postcondition of handle_packet: for every inbound packet and session state the bytes appended are exactly '
            'PUBACK(id)/PUBREC(id)/PUBCOMP(id) for QoS1/QoS2 PUBLISH and PUBREL, and nothing otherwise, independent of subscription identifiers.', '5 C08'),
    'C09': ('proof', 'Verus discharges on handle_packet: the set of inbound QoS 2 identifiers answered with PUBREC and not yet released is tracked exactly '
            '(pushed on first delivery, removed by PUBREL, untouched by everything else, cleared by reset_session); a QoS 2 PUBLISH whose identifier is in the set is acknowledged again (C08) '
            'and leaves every stream untouched; otherwise it is delivered as in C07.', '5 C09'),
    'C10': ('proof', 'Verus discharges the send-quota step contracts of handle_connack/handle_message/handle_packet/retransmit for all u16 values: '
            'quota <= Receive Maximum is invariant, a QoS>0 PUBLISH takes one slot or is refused untouched at 0, PUBACK/PUBCOMP/failing PUBREC free exactly one, '
            'nothing else changes quota or Receive Maximum.', '5 C10'),
    'C11': ('proof', 'Verus discharges on the real allocators next_packet_id/next_sub_id (any value may come back from fetch_add): result != 0 resp. within 1..=268435455, '
            'and at every call site in publish/subscribe/unsubscribe the non-zero/in-range precondition of the option setters (the unwrap that used to panic). '
            'Distinctness: the two allocators are extracted a second time against a sequential model of the shared counter (ghost counter threaded through fetch_add: returns the current value, advances by one, wrapping; linearizability of the atomic is the assumption that reduces multi-clone / multi-thread histories to this): '
            'the identifier handed out is the counter value with zero skipped and the counter moves past it, termination of the skip loop included; a lemma over that function shows fewer than 65536 consecutive allocations hand out pairwise distinct non-zero packet identifiers. '
            'The messages handed to the context are keyed by the identifier of the very packet whose bytes they carry (subscribe: also the stream is registered under the packet\'s own subscription identifier).', '5 C11'),
    'C12': ('proof', 'Verus discharges: validate_packet_size is Ok iff no limit or len <= M; an oversize message leaves wire, queues and quota untouched and is '
            'answered with MaximumPacketSizeExceeded only; an accepted message is written as one whole packet; CONNACK stores M.', '5 C12'),
    'C13': ('proof', 'Verus discharges connect()/authorize() outcome-by-first-inbound-item (ConnectRsp / ConnectError by the 0x80 threshold / AuthRsp / SocketClosed / CodecError / error for any other packet), '
            'exactly one packet written and refusal before writing; and for the two select! arms and the prologue of run(), extracted as functions (the rest of run() must be exactly the select! loop skeleton, else undecided; each arm is held to do, with the very item it received, exactly one handler step: packet_step / message_step): Ok exit exactly after the user DISCONNECT was written '
            '(nothing after it) or server DISCONNECT reason 0, Disconnected carrying the server packet otherwise, SocketClosed on end of stream / write error, HandleClosed when all handles are gone, CodecError for undecodable input, Continue otherwise.', '5 C13'),
    'C14': ('proof', 'Safety half only, as per-call contracts under the assumed channel semantics: every handle operation returns ContextExited when unbounded_send fails (before any await) or when its '
            'receiver is cancelled (both QoS2 phases); reset_session drops every sender; SubscribeStream yields what is buffered and then None exactly when the channel is closed. '
            'The liveness half (a dropped sender wakes its receiver) is the assumed futures contract, not proved.', '5 C14'),
    'C15': ('proof', 'Verus discharges that handle_message/handle_packet never fail because a caller is gone (the oneshot/mpsc stand-ins may fail '
            'nondeterministically): the only errors are a failed transport write and a server DISCONNECT; queue removal and quota release are the same postconditions as C05/C10.', '5 C15'),
    'C17': ('proof', 'Verus discharges session_expired == (interval==0 or finite interval elapsed) over all u32 x u64, the retransmission queue step contracts '
            '(PUBLISH copy with DUP=1 / PUBREL pushed in order, PUBACK/PUBREC/PUBCOMP drop exactly their entry), and retransmit writes the queue in order as whole packets '
            '(loop invariant), clearing the timestamp.', '5 C17'),
}

TECHNIQUE = 'contract-based deductive verification: Verus on functions extracted mechanically from the working tree'

ALL = ['C%02d' % i for i in range(1, 18)]


def main():
    checks = []
    for pid in ALL:
        if pid not in CLAIMS:
            continue
        cat, text, ref = CLAIMS[pid]
        checks.append({
            'property_id': pid,
            'quick_cmd': './check %s --tier quick' % pid,
            'thorough_cmd': './check %s --tier thorough' % pid,
            'evidence_file': '/verif/evidence/%s.json' % pid,
            'replay_cmd_template': 'cat {path}',
            'engine': 'vx',
            'level_claimed': {'category': cat, 'text': text, 'design_ref': 'DESIGN.md section ' + ref},
            'level_note': COMMON_NOTE,
            'technique': TECHNIQUE,
        })
    na = [{'property_id': p, 'reason': 'check not built yet (build in progress; see DESIGN.md section 9)'} for p in ALL if p not in CLAIMS]
    m = {
        'version': 1,
        'setup_cmd': 'true',
        'hooks': {
            'guard': 'cfg(poster_verif)',
            'enable': 'RUSTFLAGS="--cfg poster_verif" (used by the native replays only; the deductive checks read the source text and need no hook)',
            'baseline_off_cmd': 'cd /repo && cargo test --workspace --no-fail-fast --offline',
            'source_commits': ['f32d620'],
            'add_only': True,
        },
        'engines': [{'name': 'vx', 'path': '/verif/tools/vx', 'serves_properties': sorted(CLAIMS),
                     'kind_free_text': 'mechanical extractor + Verus runner + obligation mapper (python)'}],
        'checks': checks,
        'not_applicable': na,
        'notes': 'Exit 2 of a check means undecided (anchor lost, unsupported construct, verifier could not read the unit, resource limit): never an alarm.',
    }
    json.dump(m, open(os.path.join(ROOT, 'MANIFEST.json'), 'w'), indent=1)
    print('checks:', [c['property_id'] for c in checks], 'not_applicable:', [x['property_id'] for x in na])


if __name__ == '__main__':
    main()
