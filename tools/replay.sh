#!/bin/sh
# usage: tools/replay.sh <repo-dir> <test-name> [filter]
# Runs a native replay test of /verif/replay against the poster crate found in <repo-dir>.
set -e
REPO="${1:-/repo}"; TEST="$2"; FILTER="${3:-}"
ROOT="$(cd "$(dirname "$0")/.." && pwd)"
WORK="${VERIF_WORK:-/var/tmp/poster-verif}"
KEY=$(echo "$REPO" | cksum | cut -d' ' -f1)
DIR="$WORK/replay-src-$KEY"
mkdir -p "$DIR"
rsync -a --delete --exclude target --exclude out "$ROOT/replay/" "$DIR/"
sed -i "s|path = \"/repo\"|path = \"$REPO\"|" "$DIR/Cargo.toml"
cd "$DIR"
RUSTFLAGS="--cfg poster_verif" CARGO_NET_OFFLINE=true CARGO_TARGET_DIR="$WORK/replay-target-$KEY" exec cargo test --offline ${VERIF_REPLAY_RELEASE:+--release} --test "$TEST" -- $FILTER --test-threads 4
