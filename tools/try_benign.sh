#!/bin/sh
# usage: tools/try_benign.sh <patch.diff> [<pid>...]   -- apply a (supposedly behaviour-preserving) change to a scratch COPY of
# /repo and run the checks on the copy; prints only what is not "held".  Default: all 17 properties.
PATCH="$1"; shift
PIDS="${*:-C01 C02 C03 C04 C05 C06 C07 C08 C09 C10 C11 C12 C13 C14 C15 C16 C17}"
COPY="${VERIF_COPY:-/var/tmp/poster-verif-benign/repo}"
mkdir -p "$COPY"
rsync -a --delete --exclude target --exclude .git /repo/ "$COPY/"
(cd "$COPY" && patch -p1 -s -f -i "$PATCH") || { echo "patch does not apply"; exit 9; }
# rsync -a restores old mtimes: make sure cargo never reuses a build of the previous candidate
find "$COPY/src" -name "*.rs" -exec touch {} +
for p in $PIDS; do
  (cd /verif && ./check "$p" --repo "$COPY" --no-evidence 2>&1 | grep -E "^VIOLATION|^KNOWN|^UNDECIDED|^C[0-9]+:" | grep -v "violations=0 undecided=0" | cut -c1-260)
done
echo "-- done $(basename $PATCH)"
