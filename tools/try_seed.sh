#!/bin/sh
# usage: tools/try_seed.sh <patch.diff> <pid> [<pid>...]   -- apply a seeded change to /repo, run checks, undo
PATCH="$1"; shift
cd /repo || exit 9
git diff --quiet || { echo "/repo has uncommitted changes"; exit 9; }
git apply "$PATCH" || { echo "patch does not apply"; exit 9; }
for p in "$@"; do
  (cd /verif && ./check "$p" --no-evidence 2>&1 | grep -E "^VIOLATION|^KNOWN|^UNDECIDED|^C[0-9]+:")
done
git checkout -- . && git status --short | head -3
