"""Assemble a Verus unit file from a template (`units/*.vrs`) and /repo's current sources.

Template lines are copied verbatim except for directives (lines whose first
non-blank characters are `//@`):

  //@include PATH                      include another template (relative to /verif)
  //@item FILE KIND NAME [derive=A,B] [rules=..]
                                       copy a struct/enum/type/const/trait item from FILE (attributes
                                       dropped except the listed derives; `pub(crate)` -> `pub`)
  //@fn FILE [impl="HEADER"] name=NAME [ret=r] [rules=W1,W2] [as=NEWNAME] [vis=pub] [sigsub="a=>b"]
      <contract clauses, copied verbatim between signature and body>
      //@inv? REGEX     like //@inv, but skipped without complaint if no loop head matches (the function may have
                         stopped looping)
      //@inv REGEX      <invariant/decreases lines inserted between the head of the loop whose head line
                         matches REGEX and its `{`>    ... //@endinv
      //@at REGEX       <lines inserted before the first body line matching REGEX; `$1`..`$9` in them stand for the
                         groups of REGEX (also for //@after)>  ... //@endat
      //@afteropen REGEX <lines inserted after the first line-ending `{` at or below the first body line matching
                         REGEX: the start of the block that the matched statement opens>  ... //@endafteropen
      //@blockend REGEX <lines inserted before the `}` closing the block that the first body line matching
                         REGEX opens (that line ends with `{`): end of a loop body>  ... //@endblockend
  //@endfn
  //@expand FILE MACRO [only=A,B] [rules=..]   expand `MACRO!(..)` invocations found in FILE

The assembler records, for every output line, where it came from.
"""
import difflib
import os
import re
import shlex
import warnings
warnings.filterwarnings('ignore', category=FutureWarning)   # character classes like `[[]` in resub= patterns

from rsparse import Src, mask, match_close, expand_macro_rules, norm
from rewrite import Rewriter, Unsupported


def _groups(payload_line, match):
    """`$1`..`$9` in a proof-hint line stand for the groups of its anchor's regular expression (e.g. the name the
    source gives a loop variable), so that a renamed local does not lose the hint"""
    def rep(m):
        k = int(m.group(1))
        return match.group(k) if k <= (match.re.groups or 0) and match.group(k) is not None else m.group(0)
    return re.sub(r'\$(\d)', rep, payload_line)


class AnchorLost(Exception):
    pass


class Unit:
    def __init__(self, repo, verif_root):
        self.repo = repo
        self.root = verif_root
        self.lines = []          # output text lines
        self.origin = []         # per line: (kind, file, line) kind in {'tpl','src'}
        self.fns = []            # (first_line, last_line, qualified_name, src_file, src_line)
        self.rw = Rewriter()
        self._src = {}
        self.extracted = []      # list of (file, what)
        self.depth = 0           # nesting of process() calls (1 = the unit's own template)

    def src(self, rel):
        if rel not in self._src:
            p = os.path.join(self.repo, rel)
            if not os.path.exists(p):
                raise AnchorLost('source file missing: ' + rel)
            self._src[rel] = Src(p)
        return self._src[rel]

    def emit(self, text, origin):
        for k, ln in enumerate(text.split('\n')):
            self.lines.append(ln)
            o = origin
            if origin[0] == 'src':
                o = ('src', origin[1], origin[2] + k)
            self.origin.append(o)

    def emit_mapped(self, new_text, old_text, rel, old_line0):
        """emit rewritten text, mapping lines back to the source through a diff of stripped lines"""
        new_l = new_text.split('\n')
        old_l = old_text.split('\n')
        sm = difflib.SequenceMatcher(None, [x.strip() for x in old_l], [x.strip() for x in new_l], autojunk=False)
        mapping = [None] * len(new_l)
        for tag, i1, i2, j1, j2 in sm.get_opcodes():
            if tag == 'equal':
                for d in range(j2 - j1):
                    mapping[j1 + d] = i1 + d
            else:
                for j in range(j1, j2):
                    mapping[j] = i1 if i1 < len(old_l) else len(old_l) - 1
        for j, ln in enumerate(new_l):
            self.lines.append(ln)
            self.origin.append(('src', rel, old_line0 + (mapping[j] if mapping[j] is not None else 0)))

    # ------------------------------------------------------------------
    def process(self, tpl_path):
        self.depth += 1
        try:
            self._process(tpl_path)
        finally:
            self.depth -= 1

    def _process(self, tpl_path):
        with open(tpl_path) as f:
            tl = f.read().split('\n')
        # `//@splice PATH`: textual inclusion of a shared contract (the SAME text is used where the
        # contract is assumed, at a call site's stand-in, and where it is proved, on the real function)
        exp = []
        for ln in tl:
            sm = re.match(r'\s*//@splice\s+(\S+)', ln)
            if sm:
                exp.extend(open(os.path.join(self.root, sm.group(1))).read().rstrip('\n').split('\n'))
                self.spliced = getattr(self, 'spliced', [])
                self.spliced.append(sm.group(1))
            else:
                exp.append(ln)
        tl = exp
        rel_tpl = os.path.relpath(tpl_path, self.root)
        i = 0
        while i < len(tl):
            ln = tl[i]
            s = ln.strip()
            if not s.startswith('//@') or s.startswith('//@ '):
                self.emit(ln, ('tpl', rel_tpl, i + 1))
                i += 1
                continue
            parts = shlex.split(s[3:])
            cmd, args = parts[0], parts[1:]
            kw = dict(a.split('=', 1) for a in args if '=' in a and not a.startswith('='))
            pos = [a for a in args if '=' not in a]
            if cmd == 'include':
                self.process(os.path.join(self.root, pos[0]))
                i += 1
            elif cmd == 'item':
                self.do_item(pos[0], pos[1], pos[2], kw)
                i += 1
            elif cmd == 'builder':
                self.do_builder(pos[0], pos[1], kw)
                i += 1
            elif cmd == 'derives':
                kw['traits'] = pos[3]
                self.do_derives(pos[0], pos[1], pos[2], kw)
                i += 1
            elif cmd == 'frozen':
                self.do_frozen(pos[0], kw)
                i += 1
            elif cmd == 'fromimpl':
                self.do_fromimpl(pos[0], pos[1], kw)
                i += 1
            elif cmd == 'implblock':
                self.do_implblock(pos[0], pos[1], kw)
                i += 1
            elif cmd == 'expand':
                self.do_expand(pos[0], pos[1], kw)
                i += 1
            elif cmd in ('fn', 'selectarm'):
                j = i + 1
                block = []
                while j < len(tl) and tl[j].strip() != '//@endfn':
                    block.append((j + 1, tl[j]))
                    j += 1
                if j >= len(tl):
                    raise ValueError('%s:%d: //@fn without //@endfn' % (tpl_path, i + 1))
                if cmd == 'selectarm':
                    kw['selectarm'] = kw.get('arm', '0')
                self.do_fn(pos[0], kw, block, rel_tpl)
                i = j + 1
            else:
                raise ValueError('%s:%d: unknown directive %s' % (tpl_path, i + 1, cmd))

    # ------------------------------------------------------------------
    def clean_item_text(self, text, kw):
        keep = tuple(x for x in kw.get('derive', '').split(',') if x)
        t = self.rw.strip_comments(text)
        t = self.rw.strip_attrs(t, keep)
        if kw.get('derive_add'):
            # e.g. vstd's `Structural`: tells Verus that the derived `==` is structural equality
            if '#[derive(' in t:
                t = t.replace('#[derive(', '#[derive(%s, ' % kw['derive_add'], 1)
            else:
                t = '#[derive(%s)]\n' % kw['derive_add'] + t
            self.rw.hit('W0.derive_structural')
        t = self.rw.pub_crate(t)
        rules = [r for r in kw.get('rules', '').split(',') if r]
        t = self.rw.apply(t, rules)
        for sub in kw.get('sub', '').split(';;'):
            if '=>' in sub:
                a, b = sub.split('=>', 1)
                if a not in t:
                    raise AnchorLost('substitution anchor not found: ' + a)
                t = t.replace(a, b)
                self.rw.hit('Wsub')
        t = self.pub_fields(t)
        t = re.sub(r'\n[ \t]*\n([ \t]*\n)+', '\n\n', t)
        return t

    def pub_fields(self, t):
        """W0.field_pub: private struct fields are made `pub` (visibility only; lets open spec fns name them)"""
        m = mask(t)
        out = t
        for sm in reversed(list(re.finditer(r'\bstruct\s+\w+', m))):
            k = sm.end()
            # skip generics
            while k < len(m) and m[k].isspace():
                k += 1
            if k < len(m) and m[k] == '<':
                depth = 0
                while k < len(m):
                    if m[k] == '<':
                        depth += 1
                    elif m[k] == '>':
                        depth -= 1
                        if depth == 0:
                            k += 1
                            break
                    k += 1
            # find the first `{`, `(` or `;`
            j = k
            while j < len(m) and m[j] not in '{(;':
                j += 1
            if j >= len(m) or m[j] == ';':
                continue
            close = match_close(m, j)
            inner = out[j + 1:close]
            im = mask(inner)
            # split fields at top-level commas
            fields, depth, last = [], 0, 0
            ang = 0
            for q, ch in enumerate(im):
                if ch in '([{':
                    depth += 1
                elif ch in ')]}':
                    depth -= 1
                elif ch == '<':
                    ang += 1
                elif ch == '>' and ang > 0:
                    ang -= 1
                elif ch == ',' and depth == 0 and ang == 0:
                    fields.append(inner[last:q + 1])
                    last = q + 1
            fields.append(inner[last:])
            new = []
            for f in fields:
                fs = f.lstrip()
                lead = f[:len(f) - len(fs)]
                if fs.strip() and not re.match(r'pub\b', fs):
                    new.append(lead + 'pub ' + fs)
                    self.rw.hit('W0.field_pub')
                else:
                    new.append(f)
            out = out[:j + 1] + ''.join(new) + out[close:]
        return out

    def do_item(self, rel, kind, name, kw):
        src = self.src(rel)
        try:
            it = src.find(kind, name, within=src.find_impl(kw['impl'])) if kw.get('impl') else src.find(kind, name)
        except LookupError as e:
            if kw.get('optional'):
                return
            raise AnchorLost(str(e))
        if kw.get('requires_derive'):
            # the template carries a stand-in for what `#[derive(..)]` generates for this item (Clone, Default, ..): the
            # derive has to be there, and no hand-written impl of that trait may exist in the file
            self.check_derives(src, rel, it, name, kw['requires_derive'].split(','))
        t = self.clean_item_text(src.text[it.start:it.end], kw)
        if kw.get('vis') == 'none':
            # for items placed inside a trait impl, where a visibility qualifier is not allowed
            t = re.sub(r'^(\s*)pub(\s*\([^)]*\))?\s+', r'\1', t, count=1)
        elif kind in ('struct', 'enum', 'type', 'const', 'trait'):
            t2 = re.sub(r'^(\s*(?:#\[[^\]]*\]\s*)*)(?!pub\b)(struct|enum|type|const|trait)\b', r'\1pub \2', t, count=1)
            if t2 != t:
                self.rw.hit('W0.item_pub')
                t = t2
        self.extracted.append((rel, '%s %s' % (kind, name)))
        self.emit_mapped(t, src.text[it.start:it.end], rel, src.text.count('\n', 0, it.start) + 1)

    def check_derives(self, src, rel, it, name, traits):
        raw = src.text[it.start:it.end]
        head = raw[:it.text_start - it.start]
        derived = set()
        for dm in re.finditer(r'#\[derive\(([^)]*)\)\]', head):
            derived.update(x.strip().split('::')[-1] for x in dm.group(1).split(','))
        for tr in traits:
            tr = tr.strip()
            if not tr:
                continue
            if tr not in derived:
                raise AnchorLost('%s: `%s` no longer derives %s (the template assumes the derived impl)' % (rel, name, tr))
            if re.search(r'\bimpl\b[^{;]*\b%s\b\s+for\s+%s\b' % (tr, name), mask(src.text)):
                raise AnchorLost('%s: a hand-written `impl %s for %s` exists next to the derive' % (rel, tr, name))

    def do_derives(self, rel, kind, name, kw):
        """//@derives FILE KIND NAME Trait[,Trait..]: only the check of check_derives (the item itself is emitted elsewhere)"""
        src = self.src(rel)
        try:
            it = src.find(kind, name)
        except LookupError as e:
            raise AnchorLost(str(e))
        self.check_derives(src, rel, it, name, kw['traits'].split(','))

    def do_frozen(self, rel, kw):
        """//@frozen FILE impl=".." name=f sha=HEX: a function that a stated rewrite or an assumption relies on but that is
        not itself put under contract must still have the text (comments and white space aside) it had when the rewrite
        was written; otherwise the unit is undecided"""
        import hashlib
        src = self.src(rel)
        try:
            it = src.find_fn(kw.get('impl'), kw['name'])
        except LookupError as e:
            raise AnchorLost(str(e))
        txt = re.sub(r'\s+', ' ', self.rw.strip_comments(src.text[it.text_start:it.end])).strip()
        h = hashlib.sha256(txt.encode()).hexdigest()[:16]
        if kw.get('sha') != h:
            raise AnchorLost('%s::%s: the text of this function changed (sha %s, expected %s); a stated rewrite / assumption depends on it' % (rel, kw['name'], h, kw.get('sha')))
        self.rw.hit('W0.frozen_checked')

    def do_implblock(self, rel, header, kw):
        src = self.src(rel)
        try:
            it = src.find_impl(header)
        except LookupError as e:
            raise AnchorLost(str(e))
        raw = src.text[it.start:it.end]
        t = self.clean_item_text(raw, kw)
        self.extracted.append((rel, header))
        first = len(self.lines)
        self.emit_mapped(t, raw, rel, src.text.count('\n', 0, it.start) + 1)
        self.fns.append((first + 1, len(self.lines), header, header, rel, it.line))

    def do_builder(self, rel, name, kw):
        """Stand-in for the code `#[derive(Builder)]` (derive_builder 0.20) generates for struct `name`:
        the builder struct (one `Option<T>` per field), `default()`, the generated setters (real, trivial
        bodies) and `build()` as an ASSUMED contract derived from the `#[builder(..)]` attributes:
        validate first (if any), mandatory fields must be set, unset `default` fields take `Default::default()`."""
        src = self.src(rel)
        try:
            it = src.find('struct', name)
        except LookupError as e:
            raise AnchorLost(str(e))
        raw = src.text[it.start:it.end]
        m = mask(raw)
        # struct-level attribute
        head_attrs = raw[:it.text_start - it.start]
        has_validate = 'validate' in head_attrs
        # fail closed on anything of derive_builder this stand-in does not model: the struct-level attribute may only be
        # `build_fn(error = "..", validate = "Self::validate")`, and the validate function has to be the one the
        # template puts under the `validate` contract
        for hb in re.findall(r'#\[builder\((.*?)\)\]', self.rw.strip_comments(head_attrs), re.S):
            hb_n = re.sub(r'\s+', '', hb)
            if not re.fullmatch(r'build_fn\(error="\w+"(,validate="Self::validate")?\)', hb_n):
                raise Unsupported('builder: struct-level attribute of %s is not modelled by the stand-in: #[builder(%s)]' % (name, hb.strip()))
        if re.search(r'#\[derive\([^)]*\bBuilder\b', head_attrs) is None:
            raise AnchorLost('builder: %s no longer derives Builder' % name)
        hm = re.search(r'\bstruct\s+' + name + r'\s*(<[^{>]*>)?\s*(where[^{]*)?\{', self.rw.strip_comments(raw[it.text_start - it.start:]), re.S)
        if not hm:
            raise Unsupported('builder: cannot parse struct header of ' + name)
        gen = (hm.group(1) or '').strip()
        where = (hm.group(2) or '').strip()
        gen_use = re.sub(r':[^,>]*', '', gen)   # <'a, ReasonT>
        ob = m.index('{', it.text_start - it.start)
        cb = match_close(m, ob)
        body = raw[ob + 1:cb]
        bm = mask(body)
        # split fields at top-level commas
        fields, depth, ang, last = [], 0, 0, 0
        for q, ch in enumerate(bm):
            if ch in '([{':
                depth += 1
            elif ch in ')]}':
                depth -= 1
            elif ch == '<':
                ang += 1
            elif ch == '>' and ang > 0 and bm[q - 1] != '-':
                ang -= 1
            elif ch == ',' and depth == 0 and ang == 0:
                fields.append(body[last:q])
                last = q + 1
        if body[last:].strip():
            fields.append(body[last:])
        parsed = []
        for f in fields:
            ft = self.rw.strip_comments(f).strip()
            if not ft:
                continue
            attrs = ' '.join(re.findall(r'#\[builder\((.*?)\)\]', ft, re.S))
            for tok in re.split(r',(?![^()]*\))', re.sub(r'\s+', '', attrs)):
                if tok and tok not in ('default', 'setter(strip_option)', 'setter(custom)'):
                    # e.g. `default = "expr"`, `setter(into)`, `setter(skip)`, `field(..)`: a different generated code
                    raise Unsupported('builder: field attribute `%s` of %s is not modelled by the stand-in' % (tok, name))
            decl = re.sub(r'#\[[^\]]*\]', '', ft, flags=re.S).strip()
            fm = re.match(r'(?:pub(?:\s*\([^)]*\))?\s+)?(\w+)\s*:\s*(.*)$', decl, re.S)
            if not fm:
                raise Unsupported('builder: cannot parse field `%s`' % decl[:40])
            fname, fty = fm.group(1), ' '.join(fm.group(2).split())
            parsed.append((fname, fty, 'default' in attrs, 'strip_option' in attrs, 'custom' in attrs))
        b = name + 'Builder'
        out = []
        out.append('// ---- derive_builder output for `%s` (ASSUMED: mirrors the macro expansion, not in the repository) ----' % name)
        for g in re.findall(r"(?<!')\b([A-Z]\w*)\b", gen_use):
            out.append('#[verifier::reject_recursive_types(%s)]' % g)
        out.append('pub struct %s%s %s {' % (b, gen, where))
        for (fname, fty, dflt, strip, custom) in parsed:
            out.append('    pub %s: Option<%s>,' % (fname, fty))
        out.append('}')
        out.append('impl%s %s%s %s {' % (gen, b, gen_use, where))
        out.append('    pub fn default() -> (r: Self)')
        if parsed:
            out.append('        ensures ' + ', '.join('r.%s is None' % f[0] for f in parsed) + ',')
        out.append('    { %s { %s } }' % (b, ', '.join('%s: None' % f[0] for f in parsed)))
        for (fname, fty, dflt, strip, custom) in parsed:
            if custom:
                continue
            if strip:
                inner = re.match(r'Option<(.*)>$', fty)
                if not inner:
                    raise Unsupported('builder: strip_option on non-Option field ' + fname)
                out.append('    pub fn %s(&mut self, value: %s) -> (r: &mut Self)' % (fname, inner.group(1)))
                val = 'Some(Some(value))'
            else:
                out.append('    pub fn %s(&mut self, value: %s) -> (r: &mut Self)' % (fname, fty))
                val = 'Some(value)'
            others = ''.join(', r.%s == old(self).%s' % (g[0], g[0]) for g in parsed if g[0] != fname)
            out.append('        ensures r.%s == %s%s, *final(self) == *final(r),' % (fname, val, others))
            out.append('    { self.%s = %s; self }' % (fname, val))
        mand = [f[0] for f in parsed if not f[2]]
        ok_cond = ' && '.join((['Self::validate_ok(*self)'] if has_validate else []) + ['self.%s is Some' % f for f in mand]) or 'true'
        out.append('    #[verifier::external_body]')
        out.append('    pub fn build(&self) -> (r: Result<%s%s, CodecError>)' % (name, gen_use))
        out.append('        ensures')
        out.append('            r is Ok <==> (%s),' % ok_cond)
        for (fname, fty, dflt, strip, custom) in parsed:
            if not dflt:
                out.append('            r matches Ok(x) ==> self.%s == Some(x.%s),' % (fname, fname))
            elif fty.startswith('Option<'):
                out.append('            r matches Ok(x) ==> x.%s == (match self.%s { Some(v) => v, None => None }),' % (fname, fname))
            else:
                out.append('            r matches Ok(x) ==> (match self.%s { Some(v) => x.%s == v, None => call_ensures(<%s as core::default::Default>::default, (), x.%s) }),' % (fname, fname, fty, fname))
        out.append('    { unimplemented!() }')
        out.append('}')
        self.emit('\n'.join(out), ('src', rel, it.line))
        for k in range(len('\n'.join(out).split('\n'))):
            self.origin[-1 - k] = ('src', rel, it.line)
        self.rw.hit('W0.builder_standin')
        self.extracted.append((rel, 'derive_builder stand-in for ' + name))

    def do_fromimpl(self, rel, header, kw):
        """copy `impl From<A> for B` verbatim and emit the vstd spec glue (FromSpecImpl) whose
        from_spec body is the exec body read as a spec expression (transparent definition)."""
        src = self.src(rel)
        try:
            it = src.find_impl(header)
        except LookupError as e:
            raise AnchorLost(str(e))
        self.emit_from_impl(src, it, rel, None, kw)

    def emit_from_impl(self, src, it, rel, line_override, kw):
        try:
            fn = src.find('fn', 'from', within=it)
        except LookupError as e:
            raise AnchorLost(str(e))
        raw = src.text[it.start:it.end]
        t = self.clean_item_text(raw, kw)
        t = re.sub(r'\bfn from\(\s*_\s*:', 'fn from(_e:', t)
        line0 = line_override if line_override is not None else src.text.count('\n', 0, it.start) + 1
        hm = re.match(r'impl\s*(<[^>]*>)?\s*From<(.*)>\s+for\s+(.+?)(\s+where\s+.*)?$', it.header)
        if not hm:
            raise Unsupported('fromimpl: cannot parse header ' + it.header)
        gen, a, b, wh = hm.group(1) or '', hm.group(2), hm.group(3), hm.group(4) or ''
        sig = self.rw.strip_comments(fn.sig_text())
        pm = re.search(r'fn\s+from\s*\(\s*(\w+)\s*:', sig)
        pname = pm.group(1)
        if pname == '_':
            pname = '_e'
        body = self.rw.strip_comments(fn.body_text())[1:-1]
        body = re.sub(r'debug_assert!\([^;]*\);', '', body).strip()
        body = re.sub(r'\b(\w+)\.into\(\)', r'vstd::std_specs::convert::FromSpec::from_spec(\1)', body)
        if ';' in mask(body) or re.search(r'\b(let)\b', mask(body)):
            raise Unsupported('fromimpl: body of %s is not a single constructor expression' % it.header)
        glue = ('impl%s vstd::std_specs::convert::FromSpecImpl<%s> for %s%s {\n'
                '    open spec fn obeys_from_spec() -> bool { true }\n'
                '    open spec fn from_spec(%s: %s) -> Self { %s }\n}' % (gen, a, b, wh, pname, a, body))
        for sub in kw.get('sub', '').split(';;'):
            if '=>' in sub:
                a1, b1 = sub.split('=>', 1)
                glue = glue.replace(a1, b1)
        # the spec glue is emitted BEFORE the impl: Verus may check `from` early (when a spec reaches it through
        # call_ensures) and breaks ties by source order
        self.emit(glue, ('src', rel, line0))
        for k in range(len(glue.split('\n'))):
            self.origin[-1 - k] = ('src', rel, line0)
        first = len(self.lines)
        if line_override is not None:
            self.emit(t, ('src', rel, line0))
            for k in range(len(t.split('\n'))):
                self.origin[-1 - k] = ('src', rel, line0)
        else:
            self.emit_mapped(t, raw, rel, line0)
        self.fns.append((first + 1, len(self.lines), it.header, it.header, rel, line0))
        self.rw.hit('W0.from_spec_glue')
        self.extracted.append((rel, it.header))

    def do_expand(self, rel, macro, kw):
        src = self.src(rel)
        only = set(x for x in kw.get('only', '').split(',') if x)
        skip = set(x for x in kw.get('skip', '').split(',') if x)
        try:
            exps = expand_macro_rules(src, macro)
        except LookupError as e:
            raise AnchorLost(str(e))
        for text, line, margs in exps:
            if only and margs[0] not in only:
                continue
            if margs[0] in skip:
                continue
            parts = [x for x in kw.get('parts', '').split(',') if x]
            if parts:
                sub = Src(rel + '#expansion', text)
                keep = []
                from_items = []
                for sit in sub.items():
                    if any((p == sit.kind) or (sit.kind == 'impl' and re.search(p, sit.header)) for p in parts):
                        if sit.kind == 'impl' and re.match(r'impl\s*(<[^>]*>)?\s*From<', sit.header):
                            from_items.append(sit)
                        else:
                            txt = sub.text[sit.start:sit.end]
                            if sit.kind == 'impl':
                                # contract injection: spec items placed at the top of a generated impl block
                                for key, val in kw.items():
                                    if key.startswith('inject_') and re.search(r'\b' + key[len('inject_'):] + r'\b', sit.header):
                                        ob = sit.body_open - sit.start
                                        inj = open(os.path.join(self.root, val)).read()
                                        txt = txt[:ob + 1] + '\n' + inj + txt[ob + 1:]
                                        self.rw.hit('W0.contract_injected')
                            keep.append(txt)
                text = '\n'.join(keep)
                if text.strip():
                    t = self.clean_item_text(text, kw)
                    self.emit(t, ('src', rel, line))
                    for k in range(len(t.split('\n'))):
                        self.origin[-1 - k] = ('src', rel, line)
                for sit in from_items:
                    self.emit_from_impl(sub, sit, rel, line, kw)
                self.extracted.append((rel, '%s!(%s)' % (macro, ', '.join(margs))))
                self.rw.hit('W0.macro_expanded')
                continue
            t = self.clean_item_text(text, kw)
            self.extracted.append((rel, '%s!(%s)' % (macro, ', '.join(margs))))
            self.rw.hit('W0.macro_expanded')
            self.emit(t, ('src', rel, line))
            # every line of an expansion maps to the invocation line
            for k in range(len(t.split('\n'))):
                self.origin[-1 - k] = ('src', rel, line)

    def do_fn(self, rel, kw, block, rel_tpl):
        src = self.src(rel)
        name = kw['name']
        try:
            it = src.find_fn(kw.get('impl'), name)
        except LookupError as e:
            raise AnchorLost(str(e))
        sig = src.text[it.text_start:it.body_open]
        body = it.body_text()
        sig_line = it.line
        body_line = it.body_line()
        mb_ = mask(body)
        if re.search(r'#\s*\[\s*cfg\b|#\s*\[\s*cfg_attr\b|\bcfg!\s*\(', mb_):
            # the verifier would see ONE configuration (debug assertions on); the property is about all builds
            raise Unsupported('%s::%s: conditional compilation inside the function body' % (rel, name))
        ih = kw.get('impl') or ''
        tm = re.match(r'^(?:re:)?\^?impl(?:<[^>]*>)?\s+[\w:]+(?:<[^>]*>)?\s+for\s+(\w+)', ih)
        if tm and not ih.startswith('re:'):
            # a method of a trait impl under contract: an inherent method of the same name on the same type would be the
            # one concrete call sites resolve to
            ty = tm.group(1)
            for im in re.finditer(r'\bimpl(?:<[^>]*>)?\s+%s(?:<[^>]*>)?\s*(?:where[^{]*)?\{' % ty, mask(src.text)):
                ob_ = im.end() - 1
                cb_ = match_close(mask(src.text), ob_)
                if re.search(r'\bfn\s+%s\b' % re.escape(name), mask(src.text)[ob_:cb_]):
                    raise AnchorLost('%s: inherent method `%s::%s` shadows the trait method under contract' % (rel, ty, name))
        if 'selectarm' in kw:
            # W7: one arm of the `futures::select!` of this function becomes a function of its own.
            # The arm body is copied verbatim; statements that re-arm the select futures are dropped
            # (regex `drop`), `return Ok(())` becomes `return Ok(Flow::Exit)`, falling off the end of
            # the arm becomes `Ok(Flow::Continue)`.  The signature comes from the template (`sig=`).
            bm = mask(body)
            sm_ = re.search(r'futures::select!\s*\{', bm)
            if not sm_:
                raise AnchorLost('%s::%s: no futures::select! found' % (rel, name))
            so = sm_.end() - 1
            sc = match_close(bm, so)
            arms = []
            k = so + 1
            while k < sc:
                arrow = bm.find('=>', k, sc)
                if arrow < 0:
                    break
                ob = bm.index('{', arrow)
                cb = match_close(bm, ob)
                arms.append((k, arrow, ob, cb))
                k = cb + 1
                while k < sc and bm[k] in ' ,\n\t':
                    k += 1
            an = int(kw['selectarm'])
            if an >= len(arms):
                raise AnchorLost('%s::%s: select! has only %d arms' % (rel, name, len(arms)))
            a0, arrow, ob, cb = arms[an]
            head = norm(body[a0:arrow])
            if kw.get('armhead') and not re.search(kw['armhead'], head):
                raise AnchorLost('%s::%s: select! arm %d is `%s`, expected /%s/' % (rel, name, an, head, kw['armhead']))
            if kw.get('residue'):
                # W7.residue: everything of the function from the line matching `resfrom` on, with the arm bodies cut
                # out, must be exactly the expected loop skeleton (comments and white space aside): code that is in
                # no extracted part (between prologue and loop, around the select!, a further arm) is refused
                fm = re.search(kw['resfrom'], bm, flags=re.M)
                if not fm:
                    raise AnchorLost('%s::%s: residue start /%s/ not found' % (rel, name, kw['resfrom']))
                pieces, pos = [], fm.start()
                for (a0_, ar_, ob_, cb_) in arms:
                    pieces.append(bm[pos:ob_] + '{..}')
                    pos = cb_ + 1
                pieces.append(bm[pos:])
                got = re.sub(r'\s+', ' ', ''.join(pieces)).strip()
                want = re.sub(r'\s+', ' ', kw['residue']).strip()
                if got != want:
                    raise AnchorLost('%s::%s: the part of the function outside the extracted prologue and select arms is not the expected skeleton: `%s`' % (rel, name, got[:300]))
                self.rw.hit('W7.residue_checked')
            if kw.get('drop'):
                # the re-arm statement has to be a direct child of the arm block and its last statement
                arm_m = bm[ob:cb + 1]
                dm = list(re.finditer(r'\n[ \t]*(?:%s)[^;]*;' % kw['drop'], arm_m))
                if len(dm) != 1:
                    raise AnchorLost('%s::%s: expected exactly one re-arm statement /%s/ in select arm %d' % (rel, name, kw['drop'], an))
                depth = arm_m.count('{', 0, dm[0].start()) - arm_m.count('}', 0, dm[0].start())
                if depth != 1 or arm_m[dm[0].end():-1].strip() != '':
                    raise AnchorLost('%s::%s: the re-arm statement of select arm %d is not the last top-level statement of the arm' % (rel, name, an))
            body_line = body_line + body.count('\n', 0, ob)
            body = body[ob:cb + 1]
            sig = kw['sig']
            self.rw.hit('W7.select_arm')
        # --- signature ---
        s = self.rw.strip_comments(sig).rstrip()
        s = self.rw.pub_crate(s)
        if 'vis' in kw:
            s = re.sub(r'^(pub(\s*\([^)]*\))?\s+)?', kw['vis'] + ' ' if kw['vis'] != 'none' else '', s, count=1)
        if 'as' in kw:
            s = re.sub(r'\bfn\s+' + re.escape(name) + r'\b', 'fn ' + kw['as'], s, count=1)
        if 'ret' in kw and 'selectarm' not in kw:
            m = mask(s)
            # last `->` at bracket depth 0
            depth, arrow = 0, -1
            for k, ch in enumerate(m):
                if ch in '([{':
                    depth += 1
                elif ch in ')]}':
                    depth -= 1
                elif ch == '-' and m[k:k + 2] == '->' and depth == 0:
                    arrow = k
            if arrow >= 0:
                wh = re.search(r'\bwhere\b', m[arrow:])
                end = arrow + wh.start() if wh else len(s)
                rty = s[arrow + 2:end].strip()
                s = s[:arrow] + '-> (%s: %s)' % (kw['ret'], rty) + ('\n    ' + s[end:] if wh else '')
        for sub in kw.get('sigsub', '').split(';;'):
            if '=>' in sub:
                a, b = sub.split('=>', 1)
                if a not in s:
                    raise AnchorLost('signature substitution anchor not found in %s: %s' % (name, a))
                s = s.replace(a, b)
                self.rw.hit('Wsig')
        # --- body ---
        rules = [r for r in kw.get('rules', '').split(',') if r]
        b = self.rw.strip_comments(body)
        b = self.rw.pub_crate(b)
        self.rw.w9_skip = kw.get('w9skip')
        b = self.rw.apply(b, rules)
        self.rw.w9_skip = None
        if kw.get('until'):
            # W7p: only the statements before the first line matching `until` are kept (prologue extraction)
            bl_ = b.split('\n')
            cut = None
            for q, l_ in enumerate(bl_):
                if re.search(kw['until'], l_):
                    cut = q
                    break
            if cut is None:
                raise AnchorLost('%s::%s: `until` anchor /%s/ not found' % (rel, name, kw['until']))
            b = '\n'.join(bl_[:cut]) + '\n        ' + kw.get('tail', 'Ok(())') + '\n    }'
            self.rw.hit('W7.prologue_cut')
        if 'selectarm' in kw:
            if kw.get('drop'):
                b2, n = re.subn(r'\n[ \t]*(?:%s)[^;]*;' % kw['drop'], '', b)
                if n == 0:
                    raise AnchorLost('%s::%s: re-arm statement /%s/ not found in select arm' % (rel, name, kw['drop']))
                self.rw.hit('W7.rearm_dropped', n)
                b = b2
            b, n = re.subn(r'\breturn\s+Ok\(\(\)\)', 'return Ok(Flow::Exit)', b)
            self.rw.hit('W7.exit_marked', n)
            e = b.rstrip()
            assert e.endswith('}')
            b = e[:-1].rstrip() + '\n        Ok(Flow::Continue)\n    }'
        for sub in kw.get('sub', '').split(';;'):
            if '=>' in sub:
                a, c = sub.split('=>', 1)
                a, c = a.replace('\\n', '\n'), c.replace('\\n', '\n')
                if a not in b:
                    raise AnchorLost('body substitution anchor not found in %s: %s' % (name, a))
                b = b.replace(a, c)
                self.rw.hit('Wsub')
        # `resub=`: the same as `sub=` with a regular expression on the left (`$1`.. on the right refer to its groups); the
        # alternatives are tried in turn, at least ONE of them has to match (W20 uses it: which ghost counter a `fetch_add`
        # is given depends on the atomic it is called on)
        if kw.get('resub'):
            total = 0
            for sub in kw['resub'].split(';;'):
                if '=>' in sub:
                    a, c = sub.split('=>', 1)
                    c = re.sub(r'\$(\d)', r'\\\1', c)
                    b, n = re.subn(a, c, b)
                    total += n
                    self.rw.hit('Wresub', n)
            if total == 0:
                raise AnchorLost('body substitution anchor not found in %s: none of %s' % (name, kw['resub']))
        # --- contract block: split into clauses / inv / at ---
        clauses, invs, ats, afters, blockends, afteropens = [], [], [], [], [], []
        optional_invs = set()
        k = 0
        while k < len(block):
            lno, ln = block[k]
            st = ln.strip()
            if st.startswith('//@afteropen '):
                rx = st.split(' ', 1)[1].strip()
                payload = []
                k += 1
                while k < len(block) and block[k][1].strip() != '//@endafteropen':
                    payload.append(block[k])
                    k += 1
                afteropens.append((rx, payload))
                k += 1
                continue
            if st.startswith('//@inv? '):
                # optional loop contract: used if the loop is (still) there; a function that no longer loops needs none
                optional_invs.add(len(invs))
                st = '//@inv ' + st[len('//@inv? '):]
            if st.startswith('//@inv ') or st.startswith('//@at ') or st.startswith('//@after ') or st.startswith('//@blockend '):
                is_inv = st.startswith('//@inv ')
                is_after = st.startswith('//@after ')
                is_blockend = st.startswith('//@blockend ')
                rx = st.split(' ', 1)[1].strip()
                endtok = '//@endinv' if is_inv else ('//@endafter' if is_after else ('//@endblockend' if is_blockend else '//@endat'))
                payload = []
                k += 1
                while k < len(block) and block[k][1].strip() != endtok:
                    payload.append(block[k])
                    k += 1
                if is_blockend:
                    blockends.append((rx, payload))
                elif is_after:
                    afters.append((rx, payload))
                else:
                    (invs if is_inv else ats).append((rx, payload))
                k += 1
            else:
                clauses.append((lno, ln))
                k += 1
        first = len(self.lines)
        self.emit(s, ('src', rel, sig_line))
        for lno, ln in clauses:
            self.emit(ln, ('tpl', rel_tpl, lno))
        # body with insertions
        bl = b.split('\n')
        old_bl = body.split('\n')
        sm = difflib.SequenceMatcher(None, [x.strip() for x in old_bl], [x.strip() for x in bl], autojunk=False)
        mapping = [0] * len(bl)
        for tag, i1, i2, j1, j2 in sm.get_opcodes():
            for j in range(j1, j2):
                mapping[j] = (i1 + (j - j1)) if tag == 'equal' else min(i1, len(old_bl) - 1)
        used_inv, used_at, used_after = set(), set(), set()
        # //@blockend: resolve each anchor to the line holding the matching `}` (brace matching on masked text)
        pending_end = {}
        if blockends:
            joined = '\n'.join(bl)
            msk = mask(joined)
            starts = [0]
            for x in bl:
                starts.append(starts[-1] + len(x) + 1)
            for rx, payload in blockends:
                hit = None
                for j, ln in enumerate(bl):
                    if re.search(rx, ln) and ln.rstrip().endswith('{'):
                        hit = j
                        break
                if hit is None:
                    raise AnchorLost('%s::%s: proof-hint anchor(s) not found: %s' % (rel, name, [rx]))
                open_pos = starts[hit] + len(bl[hit].rstrip()) - 1
                close_pos = match_close(msk, open_pos)
                close_line = joined.count('\n', 0, close_pos)
                if bl[close_line].strip() != '}':
                    raise Unsupported('//@blockend: closing brace of the block is not on a line of its own: ' + bl[close_line])
                pending_end.setdefault(close_line, []).extend(payload)
        pending_open = {}
        for rx, payload in afteropens:
            hit = None
            for j, ln in enumerate(bl):
                if re.search(rx, ln):
                    hit = j
                    break
            if hit is None:
                raise AnchorLost('%s::%s: proof-hint anchor(s) not found: %s' % (rel, name, [rx]))
            j = hit
            while j < len(bl) and not bl[j].rstrip().endswith('{'):
                if bl[j].rstrip().endswith(';'):
                    raise AnchorLost('%s::%s: statement at proof-hint anchor opens no block: %s' % (rel, name, [rx]))
                j += 1
            if j >= len(bl):
                raise AnchorLost('%s::%s: statement at proof-hint anchor opens no block: %s' % (rel, name, [rx]))
            pending_open.setdefault(j, []).extend(payload)
        for j, ln in enumerate(bl):
            for lno, pl in pending_end.get(j, []):
                self.emit(pl, ('tpl', rel_tpl, lno))
            for ai, (rx, payload) in enumerate(ats):
                mt = re.search(rx, ln) if ai not in used_at else None
                if mt:
                    used_at.add(ai)
                    for lno, pl in payload:
                        self.emit(_groups(pl, mt), ('tpl', rel_tpl, lno))
            hit_inv = None
            for ii, (rx, payload) in enumerate(invs):
                if ii not in used_inv and re.search(rx, ln):
                    hit_inv = ii
                    break
            if hit_inv is not None:
                used_inv.add(hit_inv)
                st = ln.rstrip()
                if not st.endswith('{'):
                    raise Unsupported('loop head for invariant does not end with `{`: ' + ln)
                self.lines.append(st[:-1].rstrip())
                self.origin.append(('src', rel, body_line + mapping[j]))
                for lno, pl in invs[hit_inv][1]:
                    self.emit(pl, ('tpl', rel_tpl, lno))
                self.lines.append('{')
                self.origin.append(('src', rel, body_line + mapping[j]))
            else:
                self.lines.append(ln)
                self.origin.append(('src', rel, body_line + mapping[j]))
            for lno, pl in pending_open.get(j, []):
                self.emit(pl, ('tpl', rel_tpl, lno))
            for ai, (rx, payload) in enumerate(afters):
                mt = re.search(rx, ln) if ai not in used_after else None
                if mt:
                    used_after.add(ai)
                    for lno, pl in payload:
                        self.emit(_groups(pl, mt), ('tpl', rel_tpl, lno))
        if len(used_after) != len(afters):
            raise AnchorLost('%s::%s: proof-hint anchor(s) not found: %s' % (rel, name, [afters[i][0] for i in range(len(afters)) if i not in used_after]))
        if len(used_inv | optional_invs) != len(invs) or len(used_at) != len(ats):
            missing = [invs[i][0] for i in range(len(invs)) if i not in used_inv and i not in optional_invs] + \
                      [ats[i][0] for i in range(len(ats)) if i not in used_at]
            raise AnchorLost('%s::%s: proof-hint anchor(s) not found: %s' % (rel, name, missing))
        qn = (kw.get('impl', '') + '::' if kw.get('impl') else '') + name
        self.fns.append((first + 1, len(self.lines), kw.get('as', name), qn, rel, sig_line))
        self.extracted.append((rel, 'fn ' + qn))

    def text(self):
        return '\n'.join(self.lines) + '\n'

    def fn_at(self, line):
        for (a, b, nm, qn, rel, sl) in self.fns:
            if a <= line <= b:
                return nm, qn, rel, sl
        return None
