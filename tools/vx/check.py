#!/usr/bin/env python3
"""Decide one property: assemble the units that carry its obligations from /repo's working tree,
discharge them with Verus (and the Kani leaves, see kani_run.py), map every failure to a named
obligation, replay, report.

exit 0  every obligation of the property discharged (known findings are printed, not counted)
exit 1  VIOLATION line(s) printed
exit 2  undecided: anchor lost / unsupported construct / verifier crashed / resource limit
"""
import argparse
import glob
import hashlib
import json
import os
import re
import subprocess
import sys
import time

HERE = os.path.dirname(os.path.abspath(__file__))
ROOT = os.path.dirname(os.path.dirname(HERE))
sys.path.insert(0, HERE)

from assemble import Unit, AnchorLost  # noqa: E402
from rewrite import Unsupported  # noqa: E402
import vx  # noqa: E402

TAG_RE = re.compile(r'//@ ((?:C\d+)(?:\+C\d+)*):([A-Za-z0-9_]+)')
WORK = os.environ.get('VERIF_WORK', '/var/tmp/poster-verif')
try:
    VERUS_ID = subprocess.run(['verus', '--version'], capture_output=True, text=True).stdout.strip() + ' threads=12 multiple-errors=20 time'
except OSError:
    VERUS_ID = 'verus?'


def unit_templates():
    return sorted(os.path.basename(p)[:-4] for p in glob.glob(os.path.join(ROOT, 'units', '*.vrs'))
                  if not os.path.basename(p).startswith('t_'))


def tags_in_text(text):
    """(line, props, name, status) for every obligation tag; status is 'assumed' for an `ensures` clause of an
    external_body function (a contract taken on trust in this unit, proved elsewhere or trusted), else 'checked'."""
    out = []
    in_ext = False
    section = None
    for i, ln in enumerate(text.split('\n')):
        st = ln.strip()
        if 'verifier::external_body' in st:
            in_ext, section = True, None
        if in_ext:
            if re.match(r'requires\b', st):
                section = 'requires'
            elif re.match(r'ensures\b', st):
                section = 'ensures'
            if 'unimplemented!()' in st or st.startswith('{') or st.endswith('{}'):
                # tags on this very line still belong to the header
                for m in TAG_RE.finditer(ln):
                    out.append((i + 1, m.group(1).split('+'), m.group(2), 'assumed' if section == 'ensures' else 'checked'))
                in_ext, section = False, None
                continue
        for m in TAG_RE.finditer(ln):
            status = 'assumed' if (in_ext and section == 'ensures') else 'checked'
            out.append((i + 1, m.group(1).split('+'), m.group(2), status))
    return out


def template_mentions(unit, pid):
    """does the template of `unit` carry a tag of `pid` in a file it OWNS (its own template, the shared includes it owns,
    and the contract files those splice)?"""
    seen = set()

    def walk(path, owner):
        if path in seen or not os.path.exists(path):
            return False
        seen.add(path)
        txt = open(path).read()
        if (owner is None or owner == unit) and any(pid in m.group(1).split('+') for m in TAG_RE.finditer(txt)):
            return True
        for m in re.finditer(r'^\s*//@(include|splice)\s+(\S+)', txt, re.M):
            rel = m.group(2)
            # a spliced contract belongs to the file that splices it; an included file to its owner
            ow = owner if m.group(1) == 'splice' else owner_of(rel)
            if walk(os.path.join(ROOT, rel), ow):
                return True
        return False
    return walk(os.path.join(ROOT, 'units', unit + '.vrs'), unit)


# Shared include files are verified in every unit that includes them; their obligations are OWNED (counted, and
# used for selecting units) by one unit only.
OWNER = {
    'units/inc/types.vrs': 'base', 'units/inc/errors.vrs': 'base', 'units/inc/codec_traits.vrs': 'base',
    'units/inc/base_impls.vrs': 'base', 'units/inc/props_impls.vrs': 'base', 'standins/verus/bytes_io.vrs': 'base',
    'standins/verus/ext.vrs': 'context',
    'units/inc/vbi_parse.vrs': 'codec_rx', 'units/inc/rx_traits.vrs': 'codec_rx', 'units/inc/rx_base.vrs': 'codec_rx',
    'units/inc/rx_props.vrs': 'codec_rx',
    'units/inc/tx_common.vrs': 'codec_tx', 'units/inc/tx_ack.vrs': 'codec_ack', 'units/inc/tx_pingreq.vrs': 'codec_ack',
    'units/inc/tx_publish.vrs': 'codec_tx',
    'units/inc/keys.vrs': 'context', 'units/inc/handle_specs.vrs': 'handle', 'units/inc/context_specs.vrs': 'context',
    'units/inc/contracts/rx_action_id.c': 'utils', 'units/inc/contracts/tx_action_id.c': 'utils',
    'units/inc/contracts/linear_search_by_key.c': 'utils',
}


PRIORITY = ['base', 'codec_rx', 'codec_tx', 'codec_ack', 'utils', 'context', 'handle', 'stream', 'packet_stream', 'accessors', 'opts', 'roundtrip', 'wirehead']
_INCLUDERS = None


def owner_of(f):
    """the unit that owns (counts, and is run for) the tagged clauses of a shared include file: the explicit table
    above, else the first unit in PRIORITY order whose template includes the file"""
    global _INCLUDERS
    if f in OWNER:
        return OWNER[f]
    if _INCLUDERS is None:
        _INCLUDERS = {}
        for un in unit_templates():
            try:
                txt = open(os.path.join(ROOT, 'units', un + '.vrs')).read()
            except OSError:
                continue
            for m in re.finditer(r'^//@include\s+(\S+)', txt, flags=re.M):
                _INCLUDERS.setdefault(m.group(1), []).append(un)
    us = _INCLUDERS.get(f, [])
    if len(us) <= 1:
        return us[0] if us else None
    for pu in PRIORITY:
        if pu in us:
            return pu
    return sorted(us)[0]


def owned_tags(unit_name, unit):
    """tags of the assembled unit that this unit owns: (line, props, name, status)"""
    out = []
    for (ln, props, name, st) in tags_in_text(unit.text()):
        o = unit.origin[ln - 1] if ln - 1 < len(unit.origin) else None
        f = o[1] if o and o[0] == 'tpl' else None
        ow = owner_of(f) if f else None
        if ow is not None and ow != unit_name:
            continue
        out.append((ln, props, name, st))
    return out


_ASSEMBLED = {}


def assembled(unit, repo):
    if (unit, repo) not in _ASSEMBLED:
        _ASSEMBLED[(unit, repo)] = vx.assemble(unit, repo)
    return _ASSEMBLED[(unit, repo)]


def units_for(pid, repo):
    """units that carry a checked obligation of this property (C04 additionally owns every implicit obligation,
    so it runs all units).  Returns (units, undecided messages)."""
    res, bad = [], []
    for u in unit_templates():
        try:
            unit = assembled(u, repo)
        except (AnchorLost, Unsupported, LookupError, ValueError) as e:
            bad.append('%s: %s: %s' % (u, type(e).__name__, e))
            continue
        tg = owned_tags(u, unit)
        if pid == 'C04' or any(pid in props and st == 'checked' for _, props, _, st in tg):
            res.append(u)
    return res, bad


def classify(diag, unit):
    """-> (obligation_name, props, site) for one Verus error diagnostic"""
    msg = diag['message']
    spans = diag.get('spans', [])
    tags = []
    site = None
    for sp in spans:
        lines = range(sp['line_start'], sp['line_end'] + 1)
        for ln in lines:
            if ln - 1 < len(unit.lines):
                for m in TAG_RE.finditer(unit.lines[ln - 1]):
                    tags.append((m.group(1).split('+'), m.group(2)))
    # the site: the span that lies in extracted source (prefer non-tag spans: exit / call site)
    for sp in spans:
        ln = sp['line_start']
        if ln - 1 < len(unit.origin):
            o = unit.origin[ln - 1]
            f = unit.fn_at(ln)
            txt = unit.lines[ln - 1].strip()
            if o[0] == 'src' and not TAG_RE.search(unit.lines[ln - 1]):
                site = {'file': o[1], 'line': o[2], 'fn': f[0] if f else None, 'text': txt}
                break
    if site is None:
        for sp in spans:
            ln = sp['line_start']
            f = unit.fn_at(ln)
            if f:
                site = {'file': f[2] if len(f) > 2 else None, 'line': None, 'fn': f[0], 'text': unit.lines[ln - 1].strip()}
                break
    if tags:
        # the clause tag is the last tag inside the failing clause span
        props, name = tags[-1]
        return name, props, site, 'explicit'
    kind = re.sub(r'[^a-z0-9]+', '_', msg.lower()).strip('_')[:48]
    fn = site['fn'] if site else 'unknown'
    # an untagged line written in a template (loop invariant, proof hint) is a proof artefact, not a panic site
    prim = [sp for sp in spans if sp.get('is_primary')] or spans
    pl = prim[0]['line_start'] if prim else 0
    if 0 < pl <= len(unit.origin) and unit.origin[pl - 1][0] == 'tpl' and unit.fn_at(pl):
        fa = [f for f in unit.fns if f[0] <= pl <= f[1]][0]
        if msg.startswith('invariant not satisfied'):
            # belongs to every property the contract clauses of its function are tagged with
            props = []
            for k in range(fa[0] - 1, min(fa[1], len(unit.lines))):
                if unit.origin[k][0] == 'tpl':
                    for m in TAG_RE.finditer(unit.lines[k]):
                        props += [q for q in m.group(1).split('+') if q not in props]
            return 'loop_invariant_of_%s' % fn, props, site, 'explicit'
        return 'proof_hint.%s.%s' % (fn, kind), [], site, 'hint'
    return 'implicit.%s.%s' % (fn, kind), ['C04'], site, 'implicit'


def site_key(site):
    if not site:
        return '-'
    h = hashlib.sha1((site.get('text') or '').encode()).hexdigest()[:8]
    return '%s:%s:%s' % (site.get('file'), site.get('fn'), h)


def load_known():
    p = os.path.join(ROOT, 'known-findings.txt')
    res = []
    if os.path.exists(p):
        for ln in open(p):
            ln = ln.strip()
            if ln.startswith('open:'):
                kv = dict(x.split('=', 1) for x in ln[5:].split() if '=' in x)
                res.append((kv, ln))
    return res


def trusted_scan(text):
    items = []
    for kw in ('external_body', 'assume_specification', 'uninterp spec fn', 'assume(', 'admit('):
        n = len(re.findall(re.escape(kw), text))
        if n:
            items.append('%s x%d' % (kw, n))
    return items


def trusted_names(text):
    """every assumed item of an assembled unit, by name: external_body functions/types, assume_specification targets,
    uninterpreted spec functions, assume()/admit() statements"""
    out = []
    lines = text.split('\n')
    ctx = ''
    for k, l in enumerate(lines):
        m = re.match(r'\s*(?:pub )?(?:unsafe )?impl(?:<[^>]*>)?\s+(.*?)\s*(?:where.*)?\{?\s*$', l)
        if m and not l.startswith('        '):
            ctx = re.sub(r'\s+', ' ', m.group(1))[:60]
        if 'external_body' in l and l.strip().startswith('#['):
            for j in range(k, min(k + 6, len(lines))):
                mm = re.search(r'\b(fn|struct|enum)\s+(\w+)', lines[j])
                if mm:
                    out.append('external_body %s %s%s' % (mm.group(1), (ctx + '::') if (mm.group(1) == 'fn' and lines[j].startswith('    ')) else '', mm.group(2)))
                    break
        mm = re.search(r'assume_specification(?:<[^\[]*>)?\s*\[\s*([^\]]+)\]', l)
        if mm:
            out.append('assume_specification ' + re.sub(r'\s+', '', mm.group(1)))
        mm = re.search(r'uninterp spec fn\s+(\w+)', l)
        if mm:
            out.append('uninterp spec fn %s%s' % ((ctx + '::') if l.startswith('    ') else '', mm.group(1)))
        if re.search(r'\bassume\(', l) and 'assume_specification' not in l:
            out.append('assume(..) at ' + l.strip()[:80])
        if re.search(r'\badmit\(', l):
            out.append('admit() at ' + l.strip()[:80])
    return out


# a one-line proof hint in a template: `assert(..);` or a lemma call `lemma_x(..);` (only adds facts for the solver)
HINT_STMT = re.compile(r'^(\s*)(?:assert\(.*\)|(?:\w+::)*lemma_\w+(?:::<[^;]*>)?\(.*\));\s*(?://.*)?$')
CANARY_RX = re.compile(r'CANARY:(\S+)')


def is_canary(d):
    """the diagnostic is the REQUIRED failure of a planted vacuity canary"""
    for sp in d.get('spans', []):
        for t in sp.get('text', []):
            if CANARY_RX.search(t['text']) and 'assertion failed' in d['message']:
                return CANARY_RX.search(t['text']).group(1)
    return None


def cached_verus(path, text, extra=()):
    """Verus on `text` (written to `path`); results are memoised by the exact verifier input + options, so that the
    checks of several properties sharing a unit do not repeat an identical verifier run."""
    key = hashlib.sha256((VERUS_ID + '\0' + ' '.join(extra) + '\0' + text).encode()).hexdigest()
    cdir = os.environ.get('VERIF_CACHE') or os.path.join(WORK, 'cache')
    os.makedirs(cdir, exist_ok=True)
    cp = os.path.join(cdir, key + '.json')
    open(path, 'w').write(text)
    if os.environ.get('VX_NOCACHE', '0') != '1' and os.path.exists(cp):
        try:
            rc, diags, summary, wall, raw = json.load(open(cp))
            return rc, diags, summary, wall, raw, True
        except ValueError:
            pass
    rc, diags, summary, wall, raw = vx.run_verus(path, extra=extra)
    tmp = cp + '.%d.tmp' % os.getpid()
    json.dump([rc, diags, summary, wall, raw[-20000:]], open(tmp, 'w'))
    os.replace(tmp, cp)
    return rc, diags, summary, wall, raw, False


def run_unit(unit_name, repo, outdir, extra=()):
    """assemble the unit from `repo`, plant the vacuity canaries, run Verus.
    Vacuity guard: `if vx_canary_flag() { assert(false); }` (vx_canary_flag: an uninterpreted bool) is planted as the
    first statement of every contracted function extracted from the repository; that assertion must FAIL (it
    can only verify if the function's precondition is contradictory).  The branch with the flag false is the
    unchanged function, so everything else is verified as before."""
    u = assembled(unit_name, repo)
    lines = u.text().split('\n')
    names = []
    for idx, (a, b, nm, qn, rel, sl) in enumerate(u.fns):
        has_contract = any(u.origin[k][0] == 'tpl' for k in range(a - 1, min(b, len(lines))))
        if not has_contract:
            continue
        # first line of the body: the first `{`-only line that comes from the source after the signature
        for k in range(a - 1, min(b, len(lines))):
            if lines[k].strip() == '{' and u.origin[k][0] == 'src':
                cid = '%d_%s' % (idx, nm)
                lines[k] = '{ proof { if vx_canary_flag() { assert(false); } } //@ CANARY:%s' % cid
                names.append(cid)
                break
    path = os.path.join(outdir, unit_name + '.rs')
    dropped_hints = []
    auto_consts = []
    for attempt in range(4):
        text = '\n'.join(lines)
        rc, diags, summary, wall, raw, cached = cached_verus(path, text, extra)
        # Wautoconst: an extracted body that names a module-level `const` of its own source file which the template
        # does not list (a change introduced it) is not a reason to give up: the constant IS its value.  Its item is
        # copied verbatim from the source file (visibility made `pub`) onto the `verus! {` line and the unit is verified again.
        missing = set()
        for d in diags:
            m = re.match(r"cannot find value `([A-Z][A-Z0-9_]*)` in this scope", d.get('message', '')) if d['level'] == 'error' else None
            if m and m.group(1) not in [c[0] for c in auto_consts]:
                missing.add(m.group(1))
        if missing and attempt < 3:
            srcfiles = sorted(set(o[1] for o in u.origin if o[0] == 'src'))
            found = False
            for name in sorted(missing):
                for rel in srcfiles:
                    try:
                        src = open(os.path.join(repo, rel)).read()
                    except OSError:
                        continue
                    m = re.search(r'^(?:pub(?:\([a-z]+\))? )?const %s\s*:\s*([A-Za-z0-9_:<>]+)\s*=\s*([^;{}]+);' % re.escape(name), src, re.M)
                    if m:
                        for k, l in enumerate(lines):
                            if l.startswith('verus! {'):
                                lines[k] = l + ' pub const %s: %s = %s;' % (name, m.group(1), ' '.join(m.group(2).split()))
                                break
                        auto_consts.append((name, rel))
                        found = True
                        break
            if found:
                continue
        # A failing untagged proof-hint assertion of a template is not an obligation of any property: hints only
        # help the solver.  It is dropped and the unit verified again, so that what fails in the end is a tagged
        # clause (the property that is really broken) or nothing (the hint was not needed).
        hint_lines = set()
        for d in diags:
            if d['level'] == 'error' and (d['message'].startswith('assertion failed') or d['message'].startswith('precondition not satisfied')) and not is_canary(d):
                for sp in d.get('spans', []):
                    ln = sp['line_start']
                    if sp.get('is_primary') and sp['line_start'] == sp['line_end'] and ln - 1 < len(lines) and u.origin[ln - 1][0] == 'tpl' \
                            and not TAG_RE.search(lines[ln - 1]) and HINT_STMT.match(lines[ln - 1]):
                        hint_lines.add(ln)
        if not hint_lines or attempt == 3:
            break
        for ln in sorted(hint_lines):
            dropped_hints.append('%s:%d: %s' % (u.origin[ln - 1][1], u.origin[ln - 1][2], lines[ln - 1].strip()))
            lines[ln - 1] = HINT_STMT.sub(lambda m: m.group(1) + '/* failing proof hint dropped */', lines[ln - 1])
    u.dropped_hints = dropped_hints
    u.auto_consts = ['%s (%s)' % c for c in auto_consts]
    if auto_consts:
        u.rw.counts['Wautoconst'] = u.rw.counts.get('Wautoconst', 0) + len(auto_consts)
    return u, rc, diags, summary, wall, raw, path, names, cached


def real_errors(diags):
    return [d for d in diags if d['level'] == 'error' and not d['message'].startswith('aborting due to') and not is_canary(d)]


def main():
    ap = argparse.ArgumentParser()
    ap.add_argument('pid')
    ap.add_argument('--tier', default=os.environ.get('VERIF_TIER', 'quick'))
    ap.add_argument('--repo', default='/repo')
    ap.add_argument('--no-evidence', action='store_true')
    a = ap.parse_args()
    pid = a.pid
    global TIER
    TIER = a.tier
    seed = int(os.environ.get('VERIF_SEED', '0') or 0)
    t0 = time.time()
    outdir = os.path.join(WORK, pid)
    os.makedirs(outdir, exist_ok=True)
    replay_dir = os.path.join(ROOT, 'replay', 'out')
    os.makedirs(replay_dir, exist_ok=True)

    units, bad = units_for(pid, a.repo)
    known = load_known()
    undecided = []
    # a unit that cannot be assembled only matters if it (could) carry obligations of this property
    for bmsg in bad:
        un = bmsg.split(':', 1)[0]
        if pid == 'C04' or template_mentions(un, pid):
            undecided.append(bmsg)
    failures = []        # (unit, name, props, site, kind, rendered)
    obligations = []     # names of explicit obligations for this pid
    unit_reports = []
    trusted = set()
    fns_under_contract = []
    rewrites = {}
    verified_fns = 0
    trusted_items = set()
    canary_total = canary_failed = 0
    assumed_here = []

    # verify all units (and their vacuity canaries) concurrently: Verus itself is multi-threaded, 16 cores
    from concurrent.futures import ThreadPoolExecutor
    seeds = [None]
    if a.tier == 'thorough':
        # proof-stability: every unit is additionally verified under two other solver seeds
        seeds = [None, 1 + seed % 1000, 1001 + seed % 1000]

    def job(un):
        try:
            main_res = run_unit(un, a.repo, outdir)
        except (AnchorLost, Unsupported, LookupError, ValueError) as e:
            return un, e, []
        extra = []
        for sd in seeds[1:]:
            r2 = run_unit(un, a.repo, outdir, extra=('--smt-option', 'smt.random_seed=%d' % sd))
            extra.append((sd, len(real_errors(r2[2])), round(r2[4], 1), r2[8]))
        return un, main_res, extra

    with ThreadPoolExecutor(max_workers=4) as ex:
        results = list(ex.map(job, units))
    stability = []
    for un, main_res, extra in results:
        if isinstance(main_res, Exception):
            undecided.append('%s: %s: %s' % (un, type(main_res).__name__, main_res))
            continue
        u, rc, diags, summary, wall, raw, path, cnames, cached = main_res
        errs = real_errors(diags)
        vr = (summary or {}).get('verification-results', {})
        if summary is None or vr.get('encountered-vir-error') or (errs and vr.get('verified', 0) == 0 and vr.get('errors', 0) == 0):
            # compilation / VIR error: the unit could not be read by the verifier -> undecided, never an alarm
            undecided.append('%s: verifier could not process the unit: %s' % (un, '; '.join(d['message'] for d in errs[:3]) or raw[-400:]))
            continue
        for (sd, e2, w2, c2) in extra:
            stability.append({'unit': un, 'smt.random_seed': sd, 'errors': e2, 'wall_s': w2, 'cached': c2})
            if not errs and e2 > 0:
                undecided.append('%s: proof is unstable: verifies with the default solver seed, %s error(s) with smt.random_seed=%d' % (un, e2, sd))
        # functions Verus reports as verified, plus the contracted ones whose only "error" is the required canary failure
        canary_hit = set(c for c in (is_canary(d) for d in diags if d['level'] == 'error') if c)
        verified_fns += vr.get('verified', 0) + (len(canary_hit) if not errs else 0)
        for k, v in u.rw.counts.items():
            rewrites[k] = rewrites.get(k, 0) + v
        for t in trusted_scan(u.text()):
            trusted.add('%s: %s' % (un, t))
        for t in trusted_names(u.text()):
            trusted_items.add(t)
        for (fa, fb, nm, qn, rel, sl) in u.fns:
            fns_under_contract.append('%s::%s' % (rel, qn))
        for (ln, props, name, st) in owned_tags(un, u):
            if pid in props and st == 'checked':
                obligations.append('%s/%s' % (un, name))
            elif pid in props:
                assumed_here.append('%s/%s' % (un, name))
        for d in errs:
            name, props, site, kind = classify(d, u)
            if 'rlimit' in d['message'] or 'resource limit' in d['message'].lower():
                undecided.append('%s: resource limit on %s' % (un, name))
                continue
            if kind == 'hint':
                # a proof hint that fails and cannot be dropped mechanically: the proof does not go through, which
                # clause is affected is unknown -> undecided for the properties of that function, never an alarm
                fa = [f for f in u.fns if site and f[2] == site.get('fn')]
                fprops = set()
                for f in fa:
                    for k in range(f[0] - 1, min(f[1], len(u.lines))):
                        for m in TAG_RE.finditer(u.lines[k]):
                            fprops.update(m.group(1).split('+'))
                if pid in fprops or not fa:
                    undecided.append('%s: %s failed' % (un, name))
                continue
            failures.append((un, name, props, site, kind, d.get('rendered') or d['message']))
        times = (summary or {}).get('times-ms', {})
        unit_reports.append({'unit': un, 'verus_wall_s': round(wall, 2), 'failing_proof_hints_dropped_and_unit_reverified': getattr(u, 'dropped_hints', []), 'result_reused_from_identical_verifier_input': cached,
                             'verus_verified': vr.get('verified'), 'verus_errors_incl_required_canary_failures': vr.get('errors'),
                             'errors_other_than_canaries': len(errs), 'smt_ms': (times.get('smt') or {}).get('total'), 'file': path})
        # vacuity guard
        canary_total += len(cnames)
        canary_failed += len([n for n in cnames if n in canary_hit])
        for n in cnames:
            if n not in canary_hit:
                undecided.append('%s: vacuity canary for %s did not fail (contradictory precondition?)' % (un, n))

    mine = [f for f in failures if pid in f[2]]
    violations, knowns = [], []
    for f in mine:
        un, name, props, site, kind, rendered = f
        sk = site_key(site)
        hit = None
        for kv, ln in known:
            if kv.get('property') == pid and kv.get('obligation') == name and kv.get('site', sk) == sk:
                hit = ln
                break
        (knowns if hit else violations).append(f)

    # de-duplicate (same obligation, same site)
    def uniq(fs):
        seen, out = set(), []
        for f in fs:
            k = (f[1], site_key(f[3]))
            if k not in seen:
                seen.add(k)
                out.append(f)
        return out
    violations, knowns = uniq(violations), uniq(knowns)

    for f in knowns:
        print('KNOWN-FINDING: property=%s obligation=%s site=%s %s' % (pid, f[1], site_key(f[3]), (f[3] or {}).get('text', '')[:100]))

    for f in violations:
        un, name, props, site, kind, rendered = f
        rp = os.path.join(replay_dir, '%s-%s-%s.txt' % (pid, name[:60], hashlib.sha1(site_key(site).encode()).hexdigest()[:6]))
        with open(rp, 'w') as fh:
            fh.write('property: %s\nfailed obligation: %s (%s)\nunit: %s\nsite: %s\n' % (pid, name, kind, un, json.dumps(site)))
            fh.write('back end: verus (no counterexample available from the verifier)\n\n--- verifier output ---\n%s\n' % rendered)
            fal = run_falsifier(pid, name, a.repo)
            fh.write('\n--- native replay on the real crate ---\n%s\n' % fal[1])
        suffix = '' if fal[0] else ' no-failing-input-found'
        print('VIOLATION property=%s replay=%s obligation=%s site=%s%s' % (pid, rp, name, site_key(site), suffix))

    # ---- bounded cross-check: native replays of this property on the real crate -----------------------
    replays = run_replays(pid, a.repo)
    replay_viol = 0
    reported = set(f[1] for f in violations)
    for r in replays:
        if r['ok'] is False:
            rp = os.path.join(replay_dir, '%s-native-%s.txt' % (pid, r['test']))
            with open(rp, 'w') as fh:
                fh.write('property: %s\nfailed obligation: native replay %s (bounded stand-in: concrete histories run against the real crate)\n'
                         'failing cases: %s\nrerun: tools/replay.sh %s %s\n\n%s\n' % (pid, r['test'], ', '.join(r['failed_cases']), a.repo, r['test'], r['output']))
            if not violations:
                print('VIOLATION property=%s replay=%s obligation=native:%s failing-input=%s' % (pid, rp, r['test'], ','.join(r['failed_cases'])))
            replay_viol += 1
        elif r['ok'] is None:
            undecided.append('native replay %s did not build/run' % r['test'])
    selftest = []
    if a.tier == 'thorough' and os.environ.get('VERIF_SELFTEST') != '1':
        selftest = seed_selftest(pid, a.repo)
        for st in selftest:
            if st.get('applies_to_this_tree') and not st.get('detected'):
                print('NOTE: stored seeded change %s is NOT detected by this check on a scratch copy (checker adequacy, not a verdict on the tree)' % st['seed'])
    wall = time.time() - t0
    n_obl = len(set(obligations))
    failed_names = set('%s/%s' % (f[0], f[1]) for f in mine if f[4] == 'explicit')
    implicit_failed = [f for f in mine if f[4] == 'implicit']
    discharged = n_obl - len(failed_names & set(obligations))
    level = 'proof'
    if knowns or violations or undecided or replay_viol:
        level = 'other'
    ev = {
        'property_id': pid, 'tier': a.tier, 'seed': seed, 'level': level,
        'coverage': {
            'obligations': n_obl, 'discharged': discharged,
            'checker_cmd': 'verus <unit>.rs --error-format=json --output-json --multiple-errors 20 (units: %s), assembled by tools/vx from %s' % (', '.join(units), a.repo),
            'trusted_base': sorted(trusted) + ['rewrite rules applied: %s' % json.dumps(rewrites, sort_keys=True),
                                             'futures::select! loop skeleton of Context::run (assumed)', 'Verus/Z3, rustc'],
            'explanation': 'Named obligations (tagged requires/ensures/invariant clauses) of this property over functions extracted from the working tree; '
                           'implicit obligations (overflow, unwrap, index, unreachable, callee preconditions) of the same functions are checked by Verus but not individually counted. '
                           'known_findings=%d violations=%d undecided=%d' % (len(knowns), len(violations), len(undecided)),
            'samples': sorted(set(obligations))[:40],
            'functions_under_contract': sorted(set(fns_under_contract)),
            'functions_verified_by_verus': verified_fns,
            'implicit_failures': [f[1] for f in implicit_failed],
            'vacuity_canaries': {'planted': canary_total, 'failed_as_required': canary_failed},
            'units': unit_reports,
            'proof_stability_reruns': stability,
            'contracts_assumed_in_a_unit_and_proved_in_another': sorted(set(assumed_here)),
            'bounded_native_replays': [{'test': r['test'], 'cases_passed': r['passed'], 'cases_failed': r['failed']} for r in replays],
            'seeded_changes_selftest_on_scratch_copies': selftest,
            'known_findings': [f[1] for f in knowns],
            'undecided': undecided,
            'evaluations': verified_fns, 'distinct_nontrivial': n_obl,
            'rule': 'evaluations = functions (exec, proof, lemmas) whose verification conditions Verus discharged in the units of this run; '
                    'distinct_nontrivial = distinct tagged obligations (by name) of this property that this run CHECKED (assumed copies are not counted); '
                    'non-trivial: the vacuity canary of every contracted function failed as required in the same run',
            'assumed_items_by_name': sorted(trusted_items),
        },
        'assumptions': sorted(trusted),
        'wall_s': round(wall, 2),
        'violations': len(violations) + (replay_viol if not violations else 0),
    }
    if not a.no_evidence:
        os.makedirs(os.path.join(ROOT, 'evidence'), exist_ok=True)
        json.dump(ev, open(os.path.join(ROOT, 'evidence', pid + '.json'), 'w'), indent=1)
    print('%s: units=%s obligations=%d discharged=%d known=%d violations=%d undecided=%d wall=%.1fs'
          % (pid, ','.join(units), n_obl, discharged, len(knowns), len(violations), len(undecided), wall))
    for x in undecided:
        print('UNDECIDED: ' + x)
    if violations or replay_viol:
        sys.exit(1)
    if undecided or n_obl == 0:
        sys.exit(2)
    sys.exit(0)


_REPLAY_CACHE = {}
TIER = 'quick'


def run_replays(pid, repo):
    """Native replay tests of this property against the real crate (real bytes/futures, public API, hooks on).
    Bounded stand-in: each test is one concrete history.  Returns list of dicts {test, ok, passed, failed, output}.
    In the thorough tier every test is also run with `--release` (no overflow checks, no debug assertions)."""
    if (pid, repo) in _REPLAY_CACHE:
        return _REPLAY_CACHE[(pid, repo)]
    reg = os.path.join(ROOT, 'replay', 'registry.json')
    tests = json.load(open(reg)).get(pid, []) if os.path.exists(reg) else []
    res = []
    modes = [('', {})]
    if TIER == 'thorough':
        modes.append((' (release)', {'VERIF_REPLAY_RELEASE': '1'}))
    for t0, (suffix, extra_env) in [(t, m) for m in modes for t in tests]:
        t = t0
        p = subprocess.run([os.path.join(ROOT, 'tools', 'replay.sh'), repo, t], capture_output=True, text=True, env=dict(os.environ, VERIF_TIER=TIER, **extra_env))
        t = t0 + suffix
        out = p.stdout + '\n' + p.stderr
        m = re.search(r'test result: (\w+)\. (\d+) passed; (\d+) failed', out)
        if m:
            res.append({'test': t, 'ok': m.group(1) == 'ok', 'passed': int(m.group(2)), 'failed': int(m.group(3)),
                        'failed_cases': re.findall(r'^test (\S+) \.\.\. FAILED', out, re.M), 'output': out[-6000:]})
        else:
            # did not build or did not run: not a verdict
            res.append({'test': t, 'ok': None, 'passed': 0, 'failed': 0, 'failed_cases': [], 'output': out[-3000:]})
    _REPLAY_CACHE[(pid, repo)] = res
    return res


def seed_selftest(pid, repo):
    """thorough tier: apply every stored seeded change of this property (seeded/<pid>_*/patch.diff: changes that break the
    property, compile and pass the repository's tests) to a scratch COPY of the tree and run this same check on it.
    Reports which of them the check detects and how; the verdict on the real tree is not affected."""
    import shutil
    out = []
    base = os.path.join(WORK, 'seedtest', pid)
    copy = os.path.join(base, 'repo')
    try:
        dirs = sorted(glob.glob(os.path.join(ROOT, 'seeded', pid + '_*')))
        # at most VERIF_SELFTEST_MAX (default 3) seeds per run, rotating with VERIF_SEED so that all get their turn
        kmax = int(os.environ.get('VERIF_SELFTEST_MAX', '3') or 3)
        if len(dirs) > kmax:
            st = int(os.environ.get('VERIF_SEED', '0') or 0) % len(dirs)
            dirs = (dirs + dirs)[st:st + kmax]
        for d in dirs:
            patch = os.path.join(d, 'patch.diff')
            if not os.path.exists(patch):
                continue
            sid = os.path.basename(d)
            os.makedirs(copy, exist_ok=True)
            subprocess.run(['rsync', '-a', '--delete', '--exclude', 'target', '--exclude', '.git', repo.rstrip('/') + '/', copy + '/'], check=True)
            ap = subprocess.run(['patch', '-p1', '-s', '-f', '-i', patch], cwd=copy, capture_output=True, text=True)
            if ap.returncode != 0:
                out.append({'seed': sid, 'applies_to_this_tree': False})
                continue
            # rsync -a restores old mtimes: make sure cargo never reuses a build of the previous seed
            subprocess.run('find %s/src -name "*.rs" -exec touch {} +' % copy, shell=True)
            env = dict(os.environ, VERIF_WORK=os.path.join(base, 'work'), VERIF_CACHE=os.environ.get('VERIF_CACHE') or os.path.join(WORK, 'cache'), VERIF_SELFTEST='1')
            t0 = time.time()
            r = subprocess.run([sys.executable, os.path.abspath(__file__), pid, '--repo', copy, '--no-evidence', '--tier', 'quick'], capture_output=True, text=True, env=env)
            vl = [l for l in r.stdout.split('\n') if l.startswith('VIOLATION property=%s ' % pid)]
            by_verus = [l for l in vl if 'obligation=native:' not in l]
            out.append({'seed': sid, 'applies_to_this_tree': True, 'detected': bool(vl), 'exit': r.returncode,
                        'by': ('failed Verus obligation' if by_verus else ('bounded native replay' if vl else None)),
                        'obligations': sorted(set(re.findall(r'obligation=(\S+)', ' '.join(vl))))[:6], 'wall_s': round(time.time() - t0, 1)})
    finally:
        shutil.rmtree(base, ignore_errors=True)
    return out


def run_falsifier(pid, name, repo):
    """native replay for a failed obligation: (found_failing_input, text)"""
    res = run_replays(pid, repo)
    if not res:
        return False, 'no native replay registered for this property'
    found = any(r['ok'] is False for r in res)
    txt = '\n'.join('$ tools/replay.sh %s %s\n%s' % (repo, r['test'], r['output']) for r in res if r['ok'] is not True) or \
        'all native replays of this property pass on this tree: ' + ', '.join(r['test'] for r in res)
    return found, txt


if __name__ == '__main__':
    main()
