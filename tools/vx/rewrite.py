"""Stated, syntactic rewrite rules applied to extracted Rust text before it is
handed to Verus (DESIGN.md section 3.2).  Every rule is a semantics-preserving
desugaring of a std combinator or a surface form Verus cannot read.  Each
application is counted and reported in evidence (`rewrites_applied`).

Rules operate on text with a comment/string-masked shadow copy so that they
never fire inside comments or string literals.
"""
import re
from rsparse import mask, match_close, split_top_commas

IDENT = r'[A-Za-z_][A-Za-z0-9_]*'


class Unsupported(Exception):
    pass


def _find_matching_paren(m, i):
    return match_close(m, i)


def _recv_start(m, dot):
    """m: masked text, dot: index of the '.' that starts `.method(`.  Scan backwards over a
    postfix-expression chain (idents, paths, calls, indexing, fields, `?`, `&`/`*`/`&mut` prefix not
    included) and return the index where the receiver expression starts."""
    i = dot
    while True:
        j = i - 1
        while j >= 0 and m[j].isspace():
            j -= 1
        if j < 0:
            return 0
        ch = m[j]
        if ch in ')]':
            # find matching opener
            depth = 0
            k = j
            while k >= 0:
                if m[k] in ')]}':
                    depth += 1
                elif m[k] in '([{':
                    depth -= 1
                    if depth == 0:
                        break
                k -= 1
            i = k
            # a call: continue with what precedes '(' (callee path / method name / turbofish)
            j2 = i - 1
            while j2 >= 0 and m[j2].isspace():
                j2 -= 1
            if j2 >= 0 and (m[j2].isalnum() or m[j2] in '_>'):
                if m[j2] == '>':
                    # turbofish ::<...>
                    depth = 0
                    k = j2
                    while k >= 0:
                        if m[k] == '>':
                            depth += 1
                        elif m[k] == '<':
                            depth -= 1
                            if depth == 0:
                                break
                        k -= 1
                    i = k
                    if m[i - 2:i] == '::':
                        i -= 2
                continue
            return i
        if ch.isalnum() or ch == '_':
            k = j
            while k >= 0 and (m[k].isalnum() or m[k] == '_'):
                k -= 1
            if m[k + 1:j + 1] in ('match', 'if', 'while', 'return', 'in', 'let', 'else', 'break', 'mut', 'move', 'unsafe', 'loop', 'for'):
                # a keyword is not part of the operand (`match (..)? {`, `return x?`): the expression starts behind it
                e = j + 1
                while e < len(m) and m[e].isspace():
                    e += 1
                return e
            i = k + 1
            # path separator or field access before?
            j2 = i - 1
            while j2 >= 0 and m[j2].isspace():
                j2 -= 1
            if j2 >= 1 and m[j2 - 1:j2 + 1] == '::':
                i = j2 - 1
                continue
            if j2 >= 0 and m[j2] == '.' and not (j2 >= 1 and m[j2 - 1] == '.'):
                i = j2
                continue
            return i
        if ch == '?':
            i = j
            continue
        if ch == '>':
            # generic path segment like NonZero::<u16> handled above; otherwise stop
            return i
        return i


class Rewriter:
    def __init__(self):
        self.counts = {}
        self.w9_skip = None   # regex: `E?` whose E matches keeps its `?` (same error type, no conversion)

    def hit(self, rule, n=1):
        if n:
            self.counts[rule] = self.counts.get(rule, 0) + n

    # ---- W0: visibility and attributes (dropped, never rewritten) -------------
    def strip_attrs(self, text, keep_derive=()):
        m = mask(text)
        out, i, n = [], 0, len(text)
        while i < n:
            if m[i] == '#' and re.match(r'#!?\[', m[i:i + 3]):
                k = m.index('[', i)
                e = match_close(m, k)
                attr = text[i:e + 1]
                dm = re.match(r'#\[derive\((.*)\)\]$', attr, re.S)
                kept = ''
                if dm and keep_derive:
                    names = [x.strip() for x in dm.group(1).split(',') if x.strip()]
                    names = [x for x in names if x in keep_derive]
                    if names:
                        kept = '#[derive(%s)]' % ', '.join(names)
                out.append(kept)
                self.hit('W0.attr_dropped')
                i = e + 1
                # swallow the newline if the attribute stood alone on its line
                if not kept:
                    j = i
                    while j < n and text[j] in ' \t':
                        j += 1
                    if j < n and text[j] == '\n' and (not out or ''.join(out).rstrip(' \t').endswith('\n') or not ''.join(out).strip()):
                        i = j + 1
                continue
            out.append(text[i])
            i += 1
        return ''.join(out)

    def strip_comments(self, text):
        m = mask(text)
        # remove // comments (incl. docs) but keep strings
        out = []
        i, n = 0, len(text)
        while i < n:
            if text[i] == '/' and i + 1 < n and text[i + 1] in '/*' and m[i] == ' ':
                # masked => inside comment start
                if text[i + 1] == '/':
                    j = text.find('\n', i)
                    j = n if j < 0 else j
                    i = j
                    continue
                else:
                    j = text.find('*/', i)
                    i = j + 2
                    continue
            out.append(text[i])
            i += 1
        return ''.join(out)

    def pub_crate(self, text):
        t, k = re.subn(r'\bpub\s*\(\s*crate\s*\)', 'pub', text)
        self.hit('W0.pub_crate', k)
        return t

    # ---- W1: `_` closure parameter --------------------------------------------
    def w1(self, text):
        m = mask(text)
        out, last, k = [], 0, 0
        for mm in re.finditer(r'\|\s*_\s*\|', m):
            out.append(text[last:mm.start()])
            out.append('|_e|')
            last = mm.end()
            k += 1
        out.append(text[last:])
        self.hit('W1', k)
        return ''.join(out)

    # ---- generic helper: rewrite `RECV.method(ARGS)` occurrences ----------------
    def _method_calls(self, text, method):
        """yield (recv_start, dot, open_paren, close_paren) for each `.method(` occurrence, innermost last"""
        m = mask(text)
        res = []
        for mm in re.finditer(r'\.\s*' + method + r'\s*(?:::\s*<[^>]*>\s*)?\(', m):
            dot = mm.start()
            op = mm.end() - 1
            cl = match_close(m, op)
            rs = _recv_start(m, dot)
            res.append((rs, dot, op, cl))
        return res

    # ---- W2: and_then / map with a closure capturing &mut -> match -------------
    def w2(self, text):
        """`E.and_then(|p| B)`  ->  `match E { Some(p) => B, None => None }`  (Option receiver only;
        applied to receivers that are calls of `linear_search_by_key`, whose result type is Option<usize>)."""
        n = 0
        while True:
            calls = [c for c in self._method_calls(text, 'and_then')]
            done = True
            for (rs, dot, op, cl) in calls:
                recv = text[rs:dot]
                if 'linear_search_by_key' not in recv:
                    continue
                arg = text[op + 1:cl].strip()
                cm = re.match(r'\|\s*(' + IDENT + r')\s*\|\s*(.*)$', arg, re.S)
                if not cm:
                    raise Unsupported('W2: and_then argument is not a simple closure: ' + arg[:60])
                p, body = cm.group(1), cm.group(2).strip()
                text = text[:rs] + 'match %s { Some(%s) => %s, None => None }' % (recv.strip(), p, body) + text[cl + 1:]
                n += 1
                done = False
                break
            if done:
                break
        self.hit('W2', n)
        return text

    def _closure_to_match(self, text, method, some_arm, none_arm, rule, only_if=None):
        n = 0
        while True:
            done = True
            for (rs, dot, op, cl) in self._method_calls(text, method):
                arg = text[op + 1:cl].strip()
                cm = re.match(r'\|\s*(' + IDENT + r')\s*\|\s*(.*)$', arg, re.S)
                if not cm:
                    continue   # a path argument (fn item): Verus reads those
                recv = text[rs:dot].strip()
                if only_if and not only_if(recv):
                    continue
                p_, body = cm.group(1), cm.group(2).strip()
                rt = re.match(r'->\s*[\w:<>]+\s*(\{.*)$', body, re.S)
                if rt:
                    body = rt.group(1)
                text = text[:rs] + '(match %s { %s, %s })' % (recv, some_arm % (p_, body), none_arm) + text[cl + 1:]
                n += 1
                done = False
                break
            if done:
                break
        self.hit(rule, n)
        return text

    # ---- W2m / W2a: Option::map / Option::and_then with a closure -> match ------
    def w2m(self, text):
        return self._closure_to_match(text, 'map', 'Some(%s) => Some(%s)', 'None => None', 'W2m')

    def w2a(self, text):
        return self._closure_to_match(text, 'and_then', 'Some(%s) => %s', 'None => None', 'W2a')

    # ---- W2r / W2ra: Result::map / Result::and_then with a closure -> match -----
    def w2r(self, text):
        return self._closure_to_match(text, 'map', 'Ok(%s) => Ok(%s)', 'Err(e__) => Err(e__)', 'W2r')

    def w2ra(self, text):
        return self._closure_to_match(text, 'and_then', 'Ok(%s) => %s', 'Err(e__) => Err(e__)', 'W2ra')

    # ---- W3: binary operator applied to a reference ----------------------------
    def w3(self, text):
        # `X.first().unwrap() >> 4`  ->  `*X.first().unwrap() >> 4`
        m = mask(text)
        n = 0
        for mm in reversed(list(re.finditer(r'\.\s*first\(\)\s*\.\s*unwrap\(\)\s*(>>|<<|&|\|)\s', m))):
            dot = mm.start()
            rs = _recv_start(m, dot)
            text = text[:rs] + '*' + text[rs:]
            n += 1
        self.hit('W3', n)
        return text

    # ---- W4: Option combinator chains over byte_len -> match -------------------
    def w4(self, text):
        """`R.as_ref().map(F).unwrap_or(0)` with F in {ByteLen::byte_len, |val| val.byte_len()}
        ->  `match R.as_ref() { Some(val) => val.byte_len(), None => 0 }`"""
        m = mask(text)
        pat = re.compile(r'\.\s*as_ref\(\)\s*\.\s*map\(\s*(?:ByteLen::byte_len|\|\s*(\w+)\s*\|\s*\1\.byte_len\(\))\s*\)\s*\.\s*unwrap_or\(\s*0\s*\)')
        n = 0
        for mm in reversed(list(pat.finditer(m))):
            rs = _recv_start(m, mm.start())
            recv = text[rs:mm.start()].strip()
            text = text[:rs] + '(match %s.as_ref() { Some(val) => val.byte_len(), None => 0 })' % recv + text[mm.end():]
            n += 1
        self.hit('W4', n)
        return text

    # ---- W5: iterator sums -> verified helper ----------------------------------
    def w5(self, text):
        """`XS.iter().map(F).sum::<usize>()` with F a byte_len projection -> `sum_byte_len(&XS)`"""
        m = mask(text)
        pat = re.compile(r'\.\s*iter\(\)\s*\.\s*map\(\s*(?:ByteLen::byte_len|\|\s*(\w+)\s*\|\s*\1\.byte_len\(\))\s*\)\s*\.\s*sum::<usize>\(\)')
        n = 0
        for mm in reversed(list(pat.finditer(m))):
            rs = _recv_start(m, mm.start())
            recv = text[rs:mm.start()].strip()
            text = text[:rs] + 'sum_byte_len(&%s)' % recv + text[mm.end():]
            n += 1
        self.hit('W5', n)
        return text

    # ---- W9: `E?` with an error conversion -> explicit match + From::from -------
    def w9(self, text):
        """`E?` -> `(match E { Ok(v__) => v__, Err(e__) => return Err(From::from(e__)) })`.
        Verus gives `?` no specification for the `From` conversion of the error; the explicit call does.
        Must only be applied in functions where every `?` converts between different error types."""
        n = 0
        while True:
            m = mask(text)
            k = -1
            for i, ch in enumerate(m):
                if ch == '?':
                    rs = _recv_start(m, i)
                    if self.w9_skip and re.search(self.w9_skip, text[rs:i]):
                        continue
                    k = i
                    break
            if k < 0:
                break
            rs = _recv_start(m, k)
            recv = text[rs:k].strip()
            text = text[:rs] + '(match %s { Ok(v__) => v__, Err(e__) => return Err(From::from(e__)) })' % recv + text[k + 1:]
            n += 1
        self.hit('W9', n)
        return text

    # ---- W6: name the ghost iterator of a `for` loop so that invariants can refer to it ----------
    def w6(self, text):
        m = mask(text)
        n = 0
        for mm in reversed(list(re.finditer(r'\bfor\s+([^;{}]*?)\s+in\s+(?!iter__)', m))):
            # keep pattern text verbatim; insert the ghost name after `in`
            text = text[:mm.end()] + 'iter__: ' + text[mm.end():]
            n += 1
        self.hit('W6', n)
        return text

    # ---- W6c: `for PAT in X.iter().copied() {` -> `for val__ in iter__: X.iter() { let PAT = *val__;` --------
    def w6c(self, text):
        m = mask(text)
        n = 0
        for mm in reversed(list(re.finditer(r'\bfor\s+(.+?)\s+in\s+([^{;]+?)\.iter\(\)\s*\.copied\(\)\s*\{', m))):
            pat = text[mm.start(1):mm.end(1)]
            recv = text[mm.start(2):mm.end(2)].strip()
            text = text[:mm.start()] + 'for val__ in iter__: %s.iter() {\n                let %s = *val__;' % (recv, pat) + text[mm.end():]
            n += 1
        self.hit('W6c', n)
        return text

    # ---- W6e: `for (IDX, &VAR) in X.iter().enumerate() {` -> range loop with an indexed read -------------
    def w6e(self, text):
        m = mask(text)
        n = 0
        for mm in reversed(list(re.finditer(r'\bfor\s+\(\s*(\w+)\s*,\s*&\s*(\w+)\s*\)\s+in\s+([^{;]+?)\.iter\(\)\s*\.enumerate\(\)\s*\{', m))):
            idx, var = mm.group(1), mm.group(2)
            recv = text[mm.start(3):mm.end(3)].strip()
            text = text[:mm.start()] + 'for %s in iter__: 0..%s.len() {\n            let %s = %s[%s];' % (idx, recv, var, recv, idx) + text[mm.end():]
            n += 1
        self.hit('W6e', n)
        return text

    # ---- W6r: big-endian fold `X.iter().take(N).map(|&v| v as T).reduce(|a, b| a << 8 | b)` -> verified helper ---
    def w6r(self, text):
        m = mask(text)
        pat = re.compile(r'\.\s*iter\(\)\s*\.\s*take\(([^()]*(?:\([^()]*\))?[^()]*)\)\s*\.\s*map\(\s*\|&(\w+)\|\s*\2 as (u16|u32)\s*\)\s*\.\s*reduce\(\s*\|(\w+), (\w+)\|\s*\4 << 8 \| \5\s*\)')
        n = 0
        for mm in reversed(list(pat.finditer(m))):
            rs = _recv_start(m, mm.start())
            recv = text[rs:mm.start()].strip()
            text = text[:rs] + 'be_reduce_%s(&%s, %s)' % (mm.group(3), recv, text[mm.start(1):mm.end(1)].strip()) + text[mm.end():]
            n += 1
        self.hit('W6r', n)
        return text

    # ---- W6d: `for X in E {` over poster's DecodeIter -> the language's own desugaring of `for` ---------------
    def w6d(self, text):
        """`for PAT in EXPR { BODY }` -> `let mut it__ = EXPR; loop { let PAT = match it__.next() { Some(v__) => v__,
        None => break }; BODY }` (applied to loops whose iterated expression mentions `.iter::<`, i.e. Decoder::iter)"""
        n = 0
        while True:
            m = mask(text)
            mm = None
            for cand in re.finditer(r'\bfor\s+(\w+)\s+in\s+([^{;]*?\.iter::<[^{;]*?|\w*iterator\w*)\s*\{', m):
                mm = cand
                break
            if not mm:
                break
            pat = mm.group(1)
            expr = text[mm.start(2):mm.end(2)].strip()
            ob = mm.end() - 1
            text = (text[:mm.start()] + 'let mut it__%d = %s;\n        loop {\n            let %s = match it__%d.next() { Some(v__) => v__, None => break };'
                    % (n, expr, pat, n) + text[ob + 1:])
            n += 1
        self.hit('W6d', n)
        return text

    # ---- W6p: Iterator::position over `.iter()` -> index loop (std definition of `position`) ---------
    def w6p(self, text):
        m = mask(text)
        n = 0
        for mm in reversed(list(re.finditer(r'\.\s*iter\(\)\s*\.\s*position\(', m))):
            op = mm.end() - 1
            cl = match_close(m, op)
            rs = _recv_start(m, mm.start())
            recv = text[rs:mm.start()].strip()
            arg = text[op + 1:cl].strip()
            cm = re.match(r'\|\s*(.+?)\s*\|\s*(.*)$', arg, re.S)
            if not cm:
                raise Unsupported('W6p: position argument is not a closure')
            pat, pred = cm.group(1), cm.group(2).strip()
            loop = ('{\n        let mut i__: usize = 0;\n        let mut r__: Option<usize> = None;\n'
                    '        while i__ < %s.len() && r__.is_none() {\n'
                    '            let %s = &%s[i__];\n'
                    '            if %s { r__ = Some(i__); } else { i__ += 1; }\n        }\n        r__\n    }' % (recv, pat, recv, pred))
            text = text[:rs] + loop + text[cl + 1:]
            n += 1
        self.hit('W6p', n)
        return text

    # ---- W19: `match X { T::CONST => a, U::CONST => b, _ => c }` -> if/else-if chain on `X == T::CONST` ---------
    def w19(self, text):
        n = 0
        while True:
            m = mask(text)
            hit = None
            for mm in re.finditer(r'\bmatch\s+([^{;]+?)\s*\{', m):
                ob = mm.end() - 1
                cb = match_close(m, ob)
                body_m, body = m[ob + 1:cb], text[ob + 1:cb]
                # split arms
                arms, i, L = [], 0, len(body)
                ok = True
                while i < L:
                    while i < L and body_m[i].isspace():
                        i += 1
                    if i >= L:
                        break
                    ar = body_m.find('=>', i)
                    if ar < 0:
                        ok = False
                        break
                    pat = body[i:ar].strip()
                    j = ar + 2
                    while j < L and body_m[j].isspace():
                        j += 1
                    if j < L and body_m[j] == '{':
                        e = match_close(body_m, j)
                        expr = body[j:e + 1]
                        j = e + 1
                        while j < L and body_m[j].isspace():
                            j += 1
                        if j < L and body_m[j] == ',':
                            j += 1
                    else:
                        depth, k = 0, j
                        while k < L:
                            ch = body_m[k]
                            if ch in '([{':
                                depth += 1
                            elif ch in ')]}':
                                depth -= 1
                            elif ch == ',' and depth == 0:
                                break
                            k += 1
                        expr = body[j:k].strip()
                        j = k + 1
                    arms.append((pat, expr))
                    i = j
                if not ok or not arms:
                    continue
                consts = [p for p, _ in arms if re.match(r'^[A-Za-z_][\w:<>]*::[A-Z][A-Z0-9_]*$', p)]
                others = [p for p, _ in arms if p not in consts]
                if not consts or others not in ([], ['_']) or arms[-1][0] not in consts + ['_']:
                    continue
                scrut = text[mm.start(1):mm.end(1)].strip()
                parts = []
                for k, (p, e) in enumerate(arms):
                    if p == '_':
                        parts.append(' else { %s }' % e)
                    else:
                        parts.append('%sif m__ == %s { %s }' % ('' if k == 0 else ' else ', p, e))
                if '_' not in [p for p, _ in arms]:
                    parts.append(' else { unreachable!() }')
                hit = (mm.start(), cb + 1, '{ let m__ = %s; %s }' % (scrut, ''.join(parts)))
                break
            if not hit:
                break
            text = text[:hit[0]] + hit[2] + text[hit[1]:]
            n += 1
        self.hit('W19', n)
        return text

    # ---- W8: awaiting a futures oneshot receiver -> stand-in method ---------------------------------
    def w8(self, text):
        t, k = re.subn(r'\b(\w*receiver)\s*\.await\b', r'\1.recv().await', text)
        self.hit('W8', k)
        return t

    # ---- W10: generic ack::<R> -> monomorphic name ------------------------------
    def w10(self, text):
        t, k = re.subn(r'\bSelf::ack::<\s*(\w+)\s*>\s*\(', r'Self::ack_\1(', text)
        self.hit('W10', k)
        return t

    def apply(self, text, rules):
        for r in rules:
            fn = getattr(self, r.lower(), None)
            if fn is None:
                raise Unsupported('unknown rewrite rule ' + r)
            text = fn(text)
        return text

    # ---- Wmutself: by-value `mut self` receiver -> fresh `let mut` local (body half) ------------------------------
    def wmutself(self, text):
        """Verus: "The verifier does not yet support the following Rust feature: mut self".
        `fn f(mut self, ..) -> T { B }` is by definition `fn f(self, ..) -> T { let mut self__ = self; B' }` where B' is
        B with every token `self` renamed to `self__` (a `mut` binding of a by-value parameter is a fresh mutable local
        initialised by moving the argument in).  This rule is the BODY half: it renames the `self` tokens (never `Self`,
        never inside strings/comments) and makes `let mut self__ = self;` the first statement.  The SIGNATURE half is
        stated at the use site: sigsub="mut self=>self".  Refuses bodies with nested items (`fn`/`impl`), where `self`
        could mean something else.  Used by unit `opts` (consuming option builders of client/opts.rs)."""
        m = mask(text)
        ob = m.find('{')
        if ob < 0:
            raise Unsupported('Wmutself: no function body')
        if re.search(r'\b(fn|impl)\b', m):
            raise Unsupported('Wmutself: nested item in body')
        if re.search(r'\bself__\b', m):
            raise Unsupported('Wmutself: name self__ already used')
        out = text
        for mm in reversed(list(re.finditer(r'\bself\b', m))):
            if mm.start() > ob:
                out = out[:mm.start()] + 'self__' + out[mm.end():]
        out = out[:ob + 1] + '\n        let mut self__ = self;' + out[ob + 1:]
        self.hit('Wmutself')
        return out
