"""Loose structural reader for Rust source files.

It never re-types code: it only finds item boundaries (by bracket matching on a
comment/string-masked copy of the text) and hands out verbatim slices of the
original text together with the 1-based source line each slice starts at.
"""
import re


def mask(text):
    """Return a copy of `text` of the same length in which comments, string
    literals and char literals are replaced by spaces (newlines kept)."""
    out = list(text)
    i, n = 0, len(text)

    def blank(a, b):
        for k in range(a, b):
            if out[k] != '\n':
                out[k] = ' '

    while i < n:
        c = text[i]
        if c == '/' and i + 1 < n and text[i + 1] == '/':
            j = text.find('\n', i)
            j = n if j < 0 else j
            blank(i, j)
            i = j
        elif c == '/' and i + 1 < n and text[i + 1] == '*':
            depth, j = 1, i + 2
            while j < n and depth:
                if text.startswith('/*', j):
                    depth += 1
                    j += 2
                elif text.startswith('*/', j):
                    depth -= 1
                    j += 2
                else:
                    j += 1
            blank(i, j)
            i = j
        elif c == '"':
            j = i + 1
            while j < n and text[j] != '"':
                j += 2 if text[j] == '\\' else 1
            blank(i + 1, j)
            i = j + 1
        elif c == 'r' and re.match(r'r#*"', text[i:i + 8]) and (i == 0 or not (text[i - 1].isalnum() or text[i - 1] == '_')):
            m = re.match(r'r(#*)"', text[i:])
            close = '"' + m.group(1)
            j = text.find(close, i + len(m.group(0)))
            j = n if j < 0 else j
            blank(i + len(m.group(0)), j)
            i = j + len(close)
        elif c == "'":
            m = re.match(r"'(\\.[^']*|[^'\\])'", text[i:i + 12])
            if m:
                blank(i + 1, i + len(m.group(0)) - 1)
                i += len(m.group(0))
            else:
                i += 1  # lifetime
        else:
            i += 1
    return ''.join(out)


OPEN = {'{': '}', '(': ')', '[': ']'}
CLOSE = {v: k for k, v in OPEN.items()}


def match_close(m, i):
    """m: masked text, i: index of an opening bracket. Returns index of its partner."""
    stack = []
    for j in range(i, len(m)):
        ch = m[j]
        if ch in OPEN:
            stack.append(ch)
        elif ch in CLOSE:
            if not stack or stack[-1] != CLOSE[ch]:
                raise ValueError('unbalanced bracket at %d' % j)
            stack.pop()
            if not stack:
                return j
    raise ValueError('no closing bracket for %d' % i)


class Item:
    __slots__ = ('src', 'start', 'end', 'kind', 'name', 'header', 'body_open', 'text_start')

    def __init__(self, src, start, end):
        self.src, self.start, self.end = src, start, end
        self.kind = self.name = self.header = None
        self.body_open = None
        self.text_start = start

    @property
    def text(self):
        return self.src.text[self.start:self.end]

    @property
    def line(self):
        return self.src.text.count('\n', 0, self.text_start) + 1

    def children(self):
        if self.body_open is None:
            return []
        close = match_close(self.src.masked, self.body_open)
        return self.src.items(self.body_open + 1, close)

    def body_text(self):
        """text of `{ ... }` including braces"""
        close = match_close(self.src.masked, self.body_open)
        return self.src.text[self.body_open:close + 1]

    def sig_text(self):
        """text from the first non-attribute token up to (not including) the body brace"""
        return self.src.text[self.text_start:self.body_open]

    def body_line(self):
        return self.src.text.count('\n', 0, self.body_open) + 1


HEAD_RE = re.compile(
    r'(?:pub(?:\s*\([^)]*\))?\s+)?(?:default\s+)?(?:const\s+(?=fn|unsafe|async))?(?:async\s+)?(?:unsafe\s+)?'
    r'(struct|enum|type|const|static|trait|fn|impl|mod|use|macro_rules!|union|extern)(?![\w])')


def norm(s):
    return re.sub(r'\s+', ' ', s).strip()


class Src:
    def __init__(self, path, text=None):
        self.path = path
        self.text = open(path).read() if text is None else text
        self.masked = mask(self.text)

    def items(self, a=0, b=None):
        m = self.masked
        b = len(m) if b is None else b
        res = []
        i = a
        while i < b:
            # skip whitespace
            while i < b and m[i].isspace():
                i += 1
            if i >= b:
                break
            start = i
            # attributes
            j = i
            while True:
                while j < b and m[j].isspace():
                    j += 1
                if j < b and m[j] == '#' and re.match(r'#!?\[', m[j:j + 3]):
                    k = m.index('[', j)
                    j = match_close(m, k) + 1
                else:
                    break
            text_start = j
            # walk to end of item
            k = j
            body_open = None
            end = None
            pre = HEAD_RE.match(m[j:j + 80])
            to_semi = bool(pre and pre.group(1) in ('use', 'const', 'static', 'type'))
            while k < b:
                ch = m[k]
                if ch in '([' or (to_semi and ch == '{'):
                    k = match_close(m, k) + 1
                    continue
                if ch == '{':
                    body_open = k
                    close = match_close(m, k)
                    end = close + 1
                    # macro invocation / struct-like expr followed by ';'
                    t = close + 1
                    while t < b and m[t] in ' \t':
                        t += 1
                    break
                if ch == ';':
                    end = k + 1
                    break
                k += 1
            if end is None:
                end = b
            # leading comments/docs live between previous item end and `start` in original text;
            # we keep `start` at the first masked non-space char, callers get docs dropped for free.
            it = Item(self, start, end)
            it.text_start = text_start
            it.body_open = body_open
            head = m[text_start:(body_open if body_open is not None else end)]
            hm = HEAD_RE.match(head)
            if hm:
                it.kind = hm.group(1)
                rest = head[hm.end():]
                if it.kind == 'impl':
                    it.header = norm(head)
                    it.name = it.header
                elif it.kind == 'macro_rules!':
                    nm = re.match(r'\s*(\w+)', rest)
                    it.name = nm.group(1) if nm else None
                else:
                    nm = re.match(r'\s*(\w+)', rest)
                    it.name = nm.group(1) if nm else None
                    it.header = norm(head)
            else:
                mm = re.match(r'\s*([\w:]+)\s*!', head)
                if mm:
                    it.kind = 'macro_call'
                    it.name = mm.group(1)
                    if body_open is None:
                        # name!( ... );  -> paren form
                        p = m.find('(', text_start, end)
                        it.body_open = p if p >= 0 else None
                else:
                    it.kind = 'other'
            res.append(it)
            i = end
        return res

    # ---- lookups -------------------------------------------------------
    def find(self, kind, name, within=None):
        pool = within.children() if within is not None else self.items()
        hits = [it for it in pool if it.kind == kind and it.name == name]
        if len(hits) != 1:
            raise LookupError('%s: expected exactly one `%s %s`, found %d' % (self.path, kind, name, len(hits)))
        return hits[0]

    def find_impl(self, header):
        """header: whitespace-normalised impl header (exact) or a regex if it starts with `re:`"""
        pool = [it for it in self.items() if it.kind == 'impl']
        if header.startswith('re:'):
            rx = re.compile(header[3:])
            hits = [it for it in pool if rx.search(it.header)]
        else:
            want = norm(header)
            hits = [it for it in pool if it.header == want or it.header.split(' where ')[0].strip() == want]
        if len(hits) != 1:
            raise LookupError('%s: expected exactly one impl matching `%s`, found %d: %s'
                              % (self.path, header, len(hits), [h.header for h in hits][:4]))
        return hits[0]

    def find_fn(self, impl_header, name):
        if impl_header:
            return self.find('fn', name, within=self.find_impl(impl_header))
        return self.find('fn', name)


def split_top_commas(s):
    m = mask(s)
    parts, depth, last = [], 0, 0
    angle = 0
    for i, ch in enumerate(m):
        if ch in '([{':
            depth += 1
        elif ch in ')]}':
            depth -= 1
        elif ch == '<':
            angle += 1
        elif ch == '>' and angle > 0 and m[i - 1] != '-' and m[i - 1] != '=':
            angle -= 1
        elif ch == ',' and depth == 0 and angle == 0:
            parts.append(s[last:i])
            last = i + 1
    if s[last:].strip():
        parts.append(s[last:])
    return [p.strip() for p in parts]


def expand_macro_rules(src, macro_name):
    """Expand every top-level invocation `macro_name!(args);` of a single-arm
    `macro_rules!` whose matcher is a comma separated list of `$x:frag`.
    Returns list of (expanded_text, call_line, args)."""
    mr = src.find('macro_rules!', macro_name)
    body = mr.body_text()[1:-1]
    bm = mask(body)
    p = bm.index('(')
    pe = match_close(bm, p)
    matcher = body[p + 1:pe]
    names = re.findall(r'\$(\w+)\s*:\s*\w+', matcher)
    arrow = bm.index('=>', pe)
    q = bm.index('{', arrow)
    qe = match_close(bm, q)
    template = body[q + 1:qe]
    out = []
    for it in src.items():
        if it.kind == 'macro_call' and it.name == macro_name:
            close = match_close(src.masked, it.body_open)
            args = split_top_commas(src.text[it.body_open + 1:close])
            if len(args) != len(names):
                raise LookupError('macro %s: arity mismatch at line %d' % (macro_name, it.line))
            t = template
            for nme, val in sorted(zip(names, args), key=lambda p: -len(p[0])):
                t = re.sub(r'\$' + nme + r'\b', val.replace('\\', '\\\\'), t)
            out.append((t, it.line, args))
    return out
