        ensures
            r is Ok ==> wrote_ack(old(tx).wire(), final(tx).wire(), 0x40u8, packet_id.0), //@ C08+C01:ack_puback_writes_exactly_one_acknowledgement_of_its_type_and_identifier
            r is Err ==> final(tx).wire() == old(tx).wire() && r->Err_0 is SocketClosed, //@ C08+C15:failed_ack_puback_write_appends_nothing
