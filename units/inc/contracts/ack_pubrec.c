        ensures
            r is Ok ==> final(tx).wire() == old(tx).wire().push(seq![0x50u8, 2u8, (packet_id.0 >> 8) as u8, (packet_id.0 & 0xff) as u8]), //@ C08+C01:ack_pubrec_writes_exactly_hdr_2_id
            r is Err ==> final(tx).wire() == old(tx).wire() && r->Err_0 is SocketClosed, //@ C08+C15:failed_ack_pubrec_write_appends_nothing
