    ensures r == ReceiveMaximum(NonZero(65535u16)), //@ C02+C10:absent_receive_maximum_is_65535
