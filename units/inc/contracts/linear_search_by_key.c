    ensures
        r is Some <==> first_match(deque@, key) is Some, //@ C05+C06+C07+C09+C17:search_finds_an_entry_iff_one_exists
        r is Some ==> r->Some_0 == first_match(deque@, key)->Some_0, //@ C05+C06+C07+C09+C17:search_returns_the_first_match
        r is Some ==> r->Some_0 < deque@.len() && deque@[r->Some_0 as int].0 == key, //@ C05+C06+C07+C09+C17:search_result_is_in_range_and_matches
