    ensures
        r == self.spec_build(), //@ C01:disconnect_build_is_a_function_of_the_options
