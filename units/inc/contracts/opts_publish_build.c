    ensures
        // QoS>0 needs an identifier (PublishTxBuilder::validate); the built packet carries the builder's QoS (== opts.qos
        // by the invariant `spec_inv`: both are set by the one setter `qos`), DUP 0 (no setter) and the recorded identifier
        (self.spec_inv() && r is Ok) ==> (r->Ok_0.qos == (match self.qos { Some(q) => q, None => QoS::AtMostOnce }) && !r->Ok_0.dup
            && (r->Ok_0.qos != QoS::AtMostOnce ==> r->Ok_0.packet_identifier is Some)), //@ C01+C06+C11:publish_packet_carries_the_qos_the_handle_dispatches_on
        r matches Ok(p) ==> (match self.spec_id() { Some(v) => (p.packet_identifier matches Some(n) && n.0 == v), None => p.packet_identifier is None }), //@ C01+C11:publish_packet_carries_the_recorded_identifier
        // the built packet is exactly what the options describe (every field; `spec_carried_by` is defined over the real
        // builder in unit `opts`, uninterpreted in unit `handle`)
        r matches Ok(p) ==> self.spec_carried_by(p), //@ C01+C06:publish_packet_carries_exactly_the_options
