    requires val != 0, //@ C11:publish_packet_identifier_is_never_zero
    ensures
        r.qos == self.qos && r.spec_id() == Some(val), //@ C01+C11:publish_opts_record_the_packet_identifier
        self.spec_inv() ==> r.spec_inv(), //@ C01+C06:publish_opts_packet_identifier_keeps_the_invariant
        r == self.spec_with_packet_identifier(val), //@ C01+C06+C11:publish_opts_with_identifier_is_the_options_plus_that_identifier
