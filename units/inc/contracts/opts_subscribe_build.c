    ensures
        r matches Ok(p) ==> ((self.spec_id() matches Some(v) && p.packet_identifier.0 == v)
            && (match self.spec_sub_id() { Some(s) => (p.subscription_identifier matches Some(si) && si.0.0.spec_value() == s), None => p.subscription_identifier is None })), //@ C01+C11:subscribe_packet_carries_the_recorded_identifiers
