    requires val != 0, //@ C11:subscribe_packet_identifier_is_never_zero
    ensures
        r.spec_id() == Some(val) && r.spec_sub_id() == self.spec_sub_id(), //@ C01+C11:subscribe_opts_record_the_packet_identifier
