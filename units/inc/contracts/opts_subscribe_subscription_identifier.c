    requires 1 <= val <= 268435455, //@ C11:subscription_identifier_is_in_range
    ensures
        r.spec_sub_id() == Some(val) && r.spec_id() == self.spec_id(), //@ C01+C11:subscribe_opts_record_the_subscription_identifier
