    ensures
        r matches Ok(p) ==> (self.spec_id() matches Some(v) && p.packet_identifier.0 == v), //@ C01+C11:unsubscribe_packet_carries_the_recorded_identifier
