    requires val != 0, //@ C11:unsubscribe_packet_identifier_is_never_zero
    ensures
        r.spec_id() == Some(val), //@ C01+C11:unsubscribe_opts_record_the_packet_identifier
