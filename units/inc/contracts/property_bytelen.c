    // (contract) a property is its one-byte identifier followed by its value (standard 2.2.2.2)
    open spec fn spec_byte_len(&self) -> nat { 1 + self.0.spec_byte_len() }
    open spec fn len_ok(&self) -> bool { self.0.len_ok() }
