    // (contract) identifier byte, then the value
    open spec fn enc_ok(&self) -> bool { self.0.enc_ok() }
    open spec fn onto(&self, acc: Seq<u8>) -> Seq<u8> { self.0.onto(acc.push(Self::PROPERTY_ID)) }
    open spec fn enc_len(&self) -> nat { 1 + self.0.enc_len() }
    proof fn onto_len(&self, acc: Seq<u8>) { self.0.onto_len(acc.push(Self::PROPERTY_ID)); }
