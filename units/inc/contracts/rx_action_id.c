    requires spec_rx_action_id(*packet) is Some, //@ C04:rx_action_id_defined_for_packet
    ensures r == spec_rx_action_id(*packet)->Some_0, //@ C05+C06:rx_action_id_is_type_and_identifier_of_the_acknowledgement
