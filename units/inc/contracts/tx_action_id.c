    requires spec_tx_action_id(*packet) is Some, //@ C04:tx_action_id_defined_for_packet
    ensures r == spec_tx_action_id(*packet)->Some_0, //@ C05+C06:tx_action_id_is_the_key_of_the_expected_acknowledgement
